"""C15 - comment mode settings take effect; matched and unmatched partition the file."""
import itertools

from models import refmeta

ID = "C15"
RULE = (
    "three families on the real CsvPath: (meta) comments assembled from <=3 (thorough 5) chunks over {free text, 'key: value' fields with "
    "punctuation/digits, a stand-alone ':', id/name fields}, placed before, after or on both sides of the csvpath, single- and "
    "multi-line: every generated field must be in metadata with its value, and the run must equal the run without the comment; (modes) "
    "for every program x file x each of the 32 joint settings of return/unmatched/run/print/logic mode, the pairwise relations: "
    "no-matches returns exactly the scanned non-blank records the default does not (same side effects); no-run reads and returns "
    "nothing; print-mode no-default empties standard out and leaves other printers unchanged; unmatched-mode keep: collected + "
    "unmatched = the records read, each once, in file order; non-trivial = the comment carries >=2 fields / the program splits the "
    "file; state = (mode vector, program, record)"
)
BOUNDS = {
    "quick": "all comments of <=3 chunks over 10 chunk kinds x 3 placements (x 2 programs); 10 programs x 12 files x 32 mode vectors (4 programs also under the scans 1*, 1+3, 2-3)",
    "thorough": "comments of <=5 chunks; 10 programs x all 1,093 files of <=6 records x 32 mode vectors",
}
CHUNK = 120
BUDGET = {"quick": 600, "thorough": 3400}
ASSUMPTIONS = [
    "not asserted: field values that contain 'word:' (by the documented rule that is a new key); the characters ~ [ ] $ in comments; extra "
    "metadata keys beyond the generated ones (original_comment etc.)",
]

CHUNKS = [
    ("text", "just some words"),
    ("text", "When in the course of events (v2)"),
    ("field", "author", "Anatila B."),
    ("field", "description", "This is my example; with, punctuation. and 1/1/2022"),
    ("field", "x-y_z", "42"),
    ("field", "id", "first_experiment"),
    ("field", "name", "my path"),
    ("field", "Name", "Other"),
    ("stop", ":"),
    ("tight", "q", "7"),  # written "q:7": the shortest comment that still carries a field
]
PROGRAMS = [
    '[#0 == "k"]',
    '[push("s", #1) #0 == "k"]',
    '[print("p $.csvpath.line_number ") #0 == "k"]',
    '[@c = count() #0 == "k" -> stop()]',
    '[skip(#0 == "k") push("s", #1)]',
    '[#0 == "k" -> advance(1)]',
    '[last.nocontrib() -> print("end ") #0 == "n"]',
    '[#0 == "k" #1 == "1"]',
    '[yes()]',
    '[@e = add(#0, 1)]',
]
FILES_Q = ["k", "nk", "kn", "nkn", "knk", "nbk", "kb", "", "b", "nnk", "kkn", "bkn"]
MODES = {
    "return-mode": ["matches", "no-matches"],
    "unmatched-mode": ["no-keep", "keep"],
    "run-mode": ["run", "no-run"],
    "print-mode": ["default", "no-default"],
    "logic-mode": ["AND", "OR"],
}
MKEYS = list(MODES)


def _comments(maxlen):
    for n in range(1, maxlen + 1):
        for seq in itertools.product(range(len(CHUNKS)), repeat=n):
            keys = [CHUNKS[i][1] for i in seq if CHUNKS[i][0] in ("field", "tight")]
            if len(keys) != len(set(keys)):
                continue
            if not keys:
                continue
            yield list(seq)


def _all_files(nmax=3):
    out = []
    for n in range(0, nmax + 1):
        for pat in itertools.product("knb", repeat=n):
            out.append("".join(pat))
    return out


def cases(tier, seed):
    maxlen = 3 if tier == "quick" else 5
    for seq in _comments(maxlen):
        for place in ("before", "after", "both"):
            for sep in (" ", "\n   "):
                if sep != " " and len(seq) < 2:
                    continue
                yield {"kind": "meta", "seq": seq, "place": place, "sep": sep, "prog": (len(seq) + seq[0]) % 2}
    files = FILES_Q if tier == "quick" else _all_files(6)
    for pi in range(len(PROGRAMS)):
        for f in files:
            yield {"kind": "modes", "prog": pi, "file": f}
    # scans that leave records out before the last scanned line (read, never offered)
    for pi in range(4):
        for f in files:
            if len(f) < 3:
                continue
            for sc in ("1*", "1+3", "2-3"):
                yield {"kind": "modes", "prog": pi, "file": f, "scan": sc}


def sample(case):
    return case


def _render_comment(seq, sep):
    parts = []
    for i in seq:
        c = CHUNKS[i]
        if c[0] == "text":
            parts.append(c[1])
        elif c[0] == "field":
            parts.append(f"{c[1]}: {c[2]}")
        elif c[0] == "tight":
            parts.append(f"{c[1]}:{c[2]}")
        else:
            parts.append(":")
    return sep.join(parts)


def _expected_fields(seq):
    """by construction: a field's value is its text, unless free text follows it directly (then the text belongs to the value too)."""
    out = {}
    cur = None
    for i in seq:
        c = CHUNKS[i]
        if c[0] in ("field", "tight"):
            cur = c[1]
            out[cur] = c[2]
        elif c[0] == "stop":
            cur = None
        elif c[0] == "text" and cur is not None:
            out[cur] = None  # value continues into free text: exact spacing is generator-dependent, use the reference rule
    return out


KEYS = ["lines", "vars", "priv", "scan_count", "match_count", "is_valid", "stopped", "errors", "printouts", "exc"]


def run_case(case):
    from mcx import run, sandbox

    viol = []
    kind = case["kind"]

    def bad(what, got, want, cstr):
        viol.append({"case": cstr, "diverge": f"{what}: got {got!r} expected {want!r}", "sig": f"{kind}: {what}"})

    if kind == "meta":
        seq, place, sep = case["seq"], case["place"], case["sep"]
        comment = _render_comment(seq, sep)
        rows = [["k", "1", "0"], ["n", "2", "1"], ["k", "1", "2"]]
        path = sandbox.write_csv(rows)
        prog = PROGRAMS[case["prog"]]
        core = f"${path}[*]{prog}"
        if place == "before":
            text = f"~ {comment} ~ {core}"
            full = comment
        elif place == "after":
            text = f"{core} ~ {comment} ~"
            full = comment
        else:
            text = f"~ {comment} ~\n{core}\n~ trailing: note ~"
            full = None
        cstr = f"comment={comment!r} place={place}"
        a = run.run_csvpath(text)
        b = run.run_csvpath(core)
        d = run.diff(a, b, KEYS)
        if d:
            bad("a comment without mode settings changed the run", [x[0] for x in d], [], cstr)
        want = refmeta.fields(comment)
        byc = _expected_fields(seq)
        md = a["metadata"]
        for k, v in want.items():
            if byc.get(k) is not None and byc[k] != v:
                bad("HARNESS-ERROR reference rule disagrees with the generator", v, byc[k], cstr)
            if md.get(k) != v:
                bad(f"metadata field {k!r}", md.get(k), v, cstr)
        ident = refmeta.identity(want)
        from csvpath import CsvPath

        p = CsvPath(print_default=False)
        p.metadata = dict(md)
        if p.identity != ident:
            bad("identity", p.identity, ident, cstr)
        if place == "both" and md.get("trailing") != "note":
            bad("field from the comment after the csvpath", md.get("trailing"), "note", cstr)
        return {"viol": viol, "states": [run.h64((tuple(seq), place))], "transitions": 2, "nontrivial": len(want) >= 2, "outcome": run.h64(sorted(want.items())), "fingerprint": run.h64((cstr, md, [v["diverge"] for v in viol]))}

    # modes
    pi, pat = case["prog"], case["file"]
    prog = PROGRAMS[pi]
    rows = [[] if ch == "b" else [ch, "1" if i % 2 == 0 else "2", str(i)] for i, ch in enumerate(pat)]
    path = sandbox.write_csv(rows)
    sc = case.get("scan", "*")
    inwin = {"*": lambda i: True, "1*": lambda i: i >= 1, "1+3": lambda i: i in (1, 3), "2-3": lambda i: 2 <= i <= 3}[sc]
    cstr0 = f"prog={prog} file={pat!r}" + (f" scan=[{sc}]" if sc != "*" else "")
    obs = {}
    for vec in itertools.product((0, 1), repeat=5):
        settings = " ".join(f"{MKEYS[i]}: {MODES[MKEYS[i]][vec[i]]}" for i in range(5))
        text = f"~ {settings} ~ ${path}[{sc}]{prog}"
        # the standard-out printer is registered first and an extra printer after it (both orders of registration occur in practice)
        # (print_default False: the CsvPath starts WITHOUT a standard-out printer, only the capture printer is registered)
        obs[vec] = run.run_csvpath(text, print_default=((pi + len(pat)) % 2 == 0))
    states = []
    nonblank = [r for r in rows if r]
    split = False
    for vec, o in obs.items():
        cstr = cstr0 + " modes=" + ",".join(MODES[MKEYS[i]][vec[i]] for i in range(5))
        states.append(run.h64((vec, pi, len(o["lines"] or []))))
        if o["exc"]:
            bad("exception", o["exc"], None, cstr)
            continue
        # R3 run-mode no-run
        if vec[2] == 1:
            if o["lines"] or o["printouts"] or o["vars"] or o["scan_count"] or o["match_count"] or o["stdout"].strip() or o["unmatched"]:
                bad("run-mode no-run still read or produced something", (o["lines"], o["printouts"], o["vars"], o["scan_count"]), "nothing", cstr)
            if vec[0] == 0 and vec[1] == 0 and vec[3] == 0:
                # the other documented way in: the csvpath string handed straight to next() / collect() / fast_forward()
                settings = " ".join(f"{MKEYS[i]}: {MODES[MKEYS[i]][vec[i]]}" for i in range(5))
                text = f"~ {settings} ~ ${path}[{sc}]{prog}"
                for how in ("next", "collect", "fast_forward"):
                    p2, tp2 = run.new_path(("collect",))
                    try:
                        with sandbox.capture_stdout():
                            if how == "next":
                                got2 = [list(l) for l in p2.next(text)]
                            elif how == "collect":
                                got2 = [list(l) for l in p2.collect(text)]
                            else:
                                p2.fast_forward(text)
                                got2 = []
                    except Exception as e:  # noqa: BLE001
                        bad(f"run-mode no-run via {how}(csvpath) raised", f"{type(e).__name__}: {str(e)[:80]}", None, cstr)
                        continue
                    pub, _ = run.split_vars(p2.variables)
                    if got2 or pub or p2.scan_count or p2.match_count or tp2.lines:
                        bad(f"run-mode no-run still read or produced something when the csvpath is passed to {how}()", (got2, pub, p2.scan_count, list(tp2.lines)), "nothing", cstr)
            continue
        # R2 return-mode
        if vec[0] == 0:
            other = obs[(1,) + vec[1:]]
            cons = [r for r in nonblank if int(r[-1]) <= (o["last_line"] if o["last_line"] is not None else -1) and inwin(int(r[-1]))]
            got = sorted((o["lines"] or []) + (other["lines"] or []), key=lambda r: int(r[-1]))
            if other["exc"] is None:
                if got != cons or any(l in (other["lines"] or []) for l in (o["lines"] or [])):
                    bad("return-mode no-matches is not the complement of the default over the scanned records", (o["lines"], other["lines"]), cons, cstr)
                d = run.diff(o, other, ["vars", "priv", "scan_count", "match_count", "is_valid", "stopped", "errors", "printouts"])
                if d:
                    bad("return-mode changed side effects", [x[0] for x in d], [], cstr)
                if o["lines"] and other["lines"]:
                    split = True
        # R4 print-mode
        if vec[3] == 0:
            other = obs[vec[:3] + (1,) + vec[4:]]
            if other["exc"] is None:
                if other["stdout"].strip() != "":
                    bad("print-mode no-default still printed to standard out", other["stdout"][:80], "", cstr)
                if other["printouts"] != o["printouts"]:
                    bad("print-mode no-default changed the other printers' lines", other["printouts"], o["printouts"], cstr)
                if (o["printouts"] or []) and o["stdout"].strip() == "":
                    bad("print-mode default did not print to standard out", o["stdout"], o["printouts"], cstr)
                d = run.diff(o, other, ["lines", "vars", "scan_count", "match_count", "is_valid"])
                if d:
                    bad("print-mode changed the run", [x[0] for x in d], [], cstr)
        # R5 unmatched-mode: collected + unmatched = exactly the records read (every physical record up to the last one read, blank
        # records included), each once, each in file order
        if vec[1] == 1:
            last = o["last_line"] if o["last_line"] is not None else -1
            coll = o["lines"] or []
            coll_idx = [int(r[-1]) for r in coll]
            exp_um = [r for i, r in enumerate(rows) if i <= last and not (r and int(r[-1]) in coll_idx)]
            um = o["unmatched"] or []
            if um != exp_um:
                bad("unmatched-mode keep: collected + unmatched != the records read, each once, in file order", (coll, um), (coll, exp_um), cstr)
            if coll_idx != sorted(coll_idx) or len(set(coll_idx)) != len(coll_idx):
                bad("unmatched-mode keep: collected lines not in file order / repeated", coll, "file order", cstr)
            other = obs[(vec[0], 0) + vec[2:]]
            if other["exc"] is None and other["lines"] != o["lines"]:
                bad("unmatched-mode changed the collected lines", o["lines"], other["lines"], cstr)
        else:
            if o["unmatched"]:
                bad("unmatched lines kept without unmatched-mode keep", o["unmatched"], None, cstr)
    return {"viol": viol, "states": states, "transitions": 32 * len(rows), "nontrivial": split, "outcome": run.h64([obs[v]["lines"] for v in sorted(obs)]), "fingerprint": run.h64((cstr0, [v["diverge"] for v in viol]))}
