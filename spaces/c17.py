"""C17 - what runs is what was written: parsing is unambiguous and layout-insensitive."""
import itertools
import os
import re

ID = "C17"
RULE = (
    "case = (generated AST, set of layouts); the AST is rendered to tokens and every gap between tokens takes a layout choice (canonical "
    "single space; deviations: no space where the two tokens cannot merge, newline, space-tab-space, and between COMPONENTS also a "
    "'~ comment ~'); all layouts with <=1 (function family) or <=2 (others) deviating gaps are parsed by the real CsvPath.parse: the raw "
    "Lark tree must contain no _ambig node, the component tree dumped structurally (kind, name, qualifiers in order, operator, children in "
    "order, literal value and type) must equal the generator's AST for EVERY layout, an outer comment without settings must change "
    "nothing, and for programs with a file the run results must be identical across layouts; ASTs: every function name in the factory "
    "x arity 0..3 x 7 qualifier sets (up to four qualifiers); every component kind (plain/numeric/quoted headers, variables with tracking, strings, signed ints, "
    "decimals, .5, six regexes, ==, =, -> with function and assignment actions); boolean nests to depth 3; 1..3 components; "
    "non-trivial = the AST has >=2 levels; state = (AST shape, layout deviation set)"
)
BOUNDS = {
    "quick": "all factory function names x arity 0..3 x 7 qualifier sets (up to four qualifiers) (canonical + every single-gap deviation for unqualified arity<=2); "
    "component kinds and nests to depth 3 with all <=2-gap deviations; 1..3-component programs with run comparison",
    "thorough": "as quick with all single-gap deviations for every function AST (two-gap for unqualified arity<=2), nests to depth 4, <=3-gap (short kinds 4-gap) deviations for component kinds, programs with all <=2-gap and boundary <=4-gap layouts, and "
    "the whole quick space re-parsed with the grammar memoisation off",
}
CHUNK = 4
BUDGET = {"quick": 600, "thorough": 3400}
ASSUMPTIONS = [
    "the expected tree is the generator's AST; function arity validity is not asserted (tree equality is)",
    "a gap may be empty only where the neighbouring tokens cannot lexically merge (a name character on both sides)",
]

NAMECH = set("abcdefghijklmnopqrstuvwxyzABCDEFGHIJKLMNOPQRSTUVWXYZ0123456789_.-")


def function_names():
    repo = os.environ.get("VERIF_REPO", "/repo")
    with open(os.path.join(repo, "csvpath/matching/functions/function_factory.py"), encoding="utf-8") as f:
        src = f.read()
    body = src[src.index("def get_function") :]
    body = body[: body.index("if f is None")] if "if f is None" in body else body
    body = "\n".join(l for l in body.splitlines() if not l.lstrip().startswith("#"))
    names = set()
    for m in re.finditer(r'name == "([a-z_]+)"', body):
        names.add(m.group(1))
    for m in re.finditer(r"name in \[(.*?)\]", body, re.S):
        for n in re.findall(r'"([a-z_]+)"', m.group(1)):
            names.add(n)
    return sorted(names)


# ---- AST -> token list. tokens: (text, kind) ; gaps between tokens carry whether a component boundary
def toks(n, out):
    k = n[0]
    if k == "h":
        nm = n[1]
        s = f'#"{nm}"' if (isinstance(nm, str) and (" " in nm or "." in nm)) else f"#{nm}"
        s += "".join("." + q for q in (n[2] if len(n) > 2 else []))
        out.append(s)
    elif k == "v":
        out.append("@" + n[1] + "".join("." + q for q in (n[2] if len(n) > 2 else [])))
    elif k == "r":
        out.append("$" + n[1])
    elif k == "t":
        v = n[1]
        if n[2] == "str":
            out.append('"' + v + '"')
        elif n[2] == "regex":
            out.append(v)
        else:
            out.append(v)  # numeric literal as written
    elif k == "f":
        out.append(n[1] + "".join("." + q for q in n[2]))
        out.append("(")
        for i, a in enumerate(n[3]):
            if i:
                out.append(",")
            toks(a, out)
        out.append(")")
    elif k in ("==", "=", "->"):
        toks(n[1], out)
        out.append(k)
        toks(n[2], out)
    else:
        raise ValueError(n)


def expected(n):
    k = n[0]
    if k == "h":
        return ["Header", str(n[1]), list(n[2] if len(n) > 2 else [])]
    if k == "v":
        return ["Variable", n[1], list(n[2] if len(n) > 2 else [])]
    if k == "r":
        return ["Reference", n[1]]
    if k == "t":
        v, ty = n[1], n[2]
        if ty == "int":
            return ["Term", int(v), "int"]
        if ty == "float":
            return ["Term", float(v), "float"]
        return ["Term", v, "str"]
    if k == "f":
        return ["Function", n[1], list(n[2]), [expected(a) for a in n[3]]]
    return ["Equality", k, expected(n[1]), expected(n[2])]


def safe_empty(a, b):
    return not (a[-1] in NAMECH and b[0] in NAMECH) and not (a[-1] == "-" and b[0] == ">") and not (a[-1] in "=-" and b[0] in "=>")


def layouts(comps, maxdev, comment=True, only_bounds=False):
    """yield (text of the match part, deviation signature)."""
    tl = []
    bounds = set()
    for ci, c in enumerate(comps):
        if ci:
            bounds.add(len(tl))
        toks(c, tl)
    full = ["["] + tl + ["]"]
    ngaps = len(full) - 1
    bset = {b for b in bounds}  # gap index g sits between full[g] and full[g+1]; component boundary when g == b (offset by the '[')
    opts = []
    for g in range(ngaps):
        a, b = full[g], full[g + 1]
        o = ["\n", " \t ", "\r\n"]  # CRLF line ends are newlines too
        if safe_empty(a, b):
            o.append("")
        if g in bset and comment:
            o.append(" ~ a comment, with: punctuation ~ ")
        opts.append(o)
    cand = sorted(bset | {0, ngaps - 1}) if only_bounds else list(range(ngaps))
    for nd in range(0, maxdev + 1):
        for gaps in itertools.combinations(cand, nd):
            for choice in itertools.product(*[opts[g] for g in gaps]):
                sep = [" "] * ngaps
                for g, ch in zip(gaps, choice):
                    sep[g] = ch
                text = full[0]
                for g in range(ngaps):
                    text += sep[g] + full[g + 1]
                yield text, (gaps, choice)


def fn(name, quals=(), args=()):
    return ["f", name, list(quals), list(args)]


H = ["h", "a"]
ARGS = [H, ["t", "s", "str"], ["t", "1", "int"]]
QSETS = [[], ["onmatch"], ["nocontrib"], ["myname"], ["myname", "onmatch"], ["myname", "onmatch", "nocontrib"], ["asbool", "c", "notnone", "onmatch"]]
REGEXES = ["/a.b/", "/^[a-z]+$/", "/\\d{2}/", "/(x|y)z/", "/a\\/b/", "/\\s+x/"]


def kinds():
    hs = [["h", "a"], ["h", "0"], ["h", "x y"], ["h", "a", ["asbool"]], ["h", "h-1"], ["h", "a_b.nocontrib".split(".")[0], ["nocontrib"]], ["h", "a. b"], ["h", "a.b"], ["h", "2nd"], ["h", "_u-1"], ["h", "12"]]
    vs = [["v", "x"], ["v", "x", ["k"]], ["v", "x", ["asbool"]], ["v", "x", ["k", "onmatch"]], ["v", "x-y"], ["v", "2x"], ["v", "x_1"], ["v", "x", ["2"]]]
    ts = [["t", "abc", "str"], ["t", "a b,c", "str"], ["t", "", "str"], ["t", "5", "int"], ["t", "-3", "int"], ["t", "+2", "int"], ["t", "1.5", "float"], ["t", "-0.25", "float"], ["t", ".5", "float"],
          ["t", "x]y", "str"], ["t", "x[y", "str"], ["t", "p ~ q", "str"], ["t", "a$b #c @d", "str"], ["t", "s->t==u", "str"], ["t", "(z),/re/", "str"],  # grammar punctuation inside a string
          ["t", "two\n    lines", "str"], ["t", "  a\tb   c ", "str"],  # a line break / runs of blanks inside a string belong to the string
          ["t", "0", "int"], ["t", "9007199254740993", "int"], ["t", "-12345678901234567891", "int"], ["t", "100.0", "float"]]  # integers a double cannot hold
    ts += [["t", r, "regex"] for r in REGEXES]
    out = []
    for h in hs:
        out.append(h)
    for v in vs[:3]:
        out.append(v)
    lefts = [hs[0], hs[2], vs[0], fn("count"), fn("lower", [], [H])]
    for l in lefts:
        for r in [hs[1], vs[1], fn("upper", [], [["v", "x"]])] + ts:
            out.append(["==", l, r])
    for q in [[], ["onmatch"], ["latch", "notnone"], ["k"], ["k", "increase"]]:
        for r in [hs[0], ts[0], ts[3], ts[6], fn("count"), vs[0]]:
            out.append(["=", ["v", "y", q], r])
    for l in [hs[0], fn("last", ["nocontrib"]), ["==", hs[0], ts[0]], fn("not", [], [H])]:
        for r in [fn("print", [], [["t", "hi $.csvpath.line_number", "str"]]), fn("stop"), ["=", ["v", "z"], ts[3]], ["=", ["v", "z", ["onmatch"]], fn("count")]]:
            out.append(["->", l, r])
    refs = [["r", "g.variables.x"], ["r", "g.variables.x.k"], ["r", "g.headers.a"], ["r", "my-group.variables.v_1"]]
    for r in refs:
        out.append(["=", ["v", "y"], r])
        out.append(["==", hs[0], r])
        out.append(fn("in", [], [H, r]))
        out.append(["->", r, fn("stop")])
    for t in ts:
        out.append(fn("push", [], [["t", "s", "str"], t]))
        out.append(fn("regex", [], [t, H]) if t[2] == "regex" else fn("in", [], [H, t]))
    return out


def nests(depth):
    atoms = [H, ["==", H, ["t", "x", "str"]], fn("yes"), ["v", "x"], fn("empty", [], [H]), fn("above", [], [H, ["t", "1", "int"]])]
    level = list(atoms)
    allof = []
    for d in range(1, depth + 1):
        nxt = []
        for a in level[:6]:
            nxt.append(fn("not", [], [a]))
        for a, b in itertools.product(level[:4], atoms[:3]):
            nxt.append(fn("and", [], [a, b]))
            nxt.append(fn("or", [], [b, a]))
        allof += nxt
        level = nxt
    return allof


def cases(tier, seed):
    names = function_names()
    for nm in names:
        for ar in range(0, 4):
            for qi, qs in enumerate(QSETS):
                dev = 1 if (tier == "thorough" or (qi == 0 and ar <= 2)) else 0
                if tier == "thorough" and qi == 0 and ar <= 2:
                    dev = 2
                yield {"comps": [fn(nm, qs, ARGS[:ar])], "dev": dev, "fam": "fn"}
    kd = 2 if tier == "quick" else 3
    for k in kinds():
        yield {"comps": [k], "dev": (kd + 1 if tier == "thorough" and _ntok(k) <= 4 else kd) if _ntok(k) <= 9 else 2, "fam": "kind"}
    for n in nests(3 if tier == "quick" else 4):
        yield {"comps": [n], "dev": 1 if _ntok(n) > 12 else 2, "fam": "nest"}
    progs = [
        [["==", H, ["t", "k", "str"]], fn("push", [], [["t", "s", "str"], ["h", "1"]])],
        [["=", ["v", "c"], fn("count")], ["->", ["==", H, ["t", "k", "str"]], fn("print", [], [["t", "k at $.csvpath.line_number ", "str"]])]],
        [fn("skip", [], [["==", H, ["t", "k", "str"]]]), ["=", ["v", "n", ["onmatch"]], fn("count_lines")], fn("yes")],
        [["h", "1"], fn("not", [], [fn("empty", [], [H])]), ["->", fn("last", ["nocontrib"]), ["=", ["v", "t"], fn("total_lines")]]],
        [fn("tally", [], [H]), ["==", ["h", "1"], ["t", "1", "int"]]],
        [fn("count", [], [["==", H, ["t", "k", "str"]]]), fn("every", [], [H, ["t", "2", "int"]]), fn("yes")],  # unnamed bookkeeping: generated variable names
        [["==", fn("lower", [], [H]), ["t", "k", "str"]], ["=", ["v", "x", ["k"]], ["h", "1"]], fn("stop", [], [["==", ["h", "1"], ["t", "2", "int"]]])],
    ]
    for p in progs:
        yield {"comps": p, "dev": 1 if tier == "quick" else 2, "fam": "prog", "run": True}
        yield {"comps": p, "dev": 3 if tier == "quick" else 4, "fam": "prog", "run": True, "bounds": True}


def _ntok(n):
    t = []
    toks(n, t)
    return len(t)


def sample(case):
    t, _ = next(layouts(case["comps"], 0))
    return {"match": t, "family": case["fam"], "max_deviating_gaps": case["dev"]}


def dump(m):
    from csvpath.matching.productions import Equality, Header, Term, Variable
    from csvpath.matching.productions.reference import Reference
    from csvpath.matching.functions.function import Function

    if isinstance(m, Function):
        ch = []
        if len(m.children) == 1:
            c = m.children[0]
            if isinstance(c, Equality) and c.op == ",":
                ch = [dump(x) for x in c.children]
            else:
                ch = [dump(c)]
        elif len(m.children) > 1:
            ch = [dump(x) for x in m.children]
        return ["Function", m.name, list(m.qualifiers or []), ch]
    if isinstance(m, Equality):
        return ["Equality", m.op, dump(m.left), dump(m.right)]
    if isinstance(m, Header):
        return ["Header", str(m.name), list(m.qualifiers or [])]
    if isinstance(m, Variable):
        return ["Variable", m.name, list(m.qualifiers or [])]
    if isinstance(m, Term):
        return ["Term", m.value, type(m.value).__name__]
    if isinstance(m, Reference):
        return ["Reference", ".".join(m.name_parts)]
    return ["?", type(m).__name__]


def run_case(case):
    from mcx import run, sandbox
    from csvpath import CsvPath
    from csvpath.matching.lark_parser import LarkParser

    comps, maxdev = case["comps"], case["dev"]
    exp = [expected(c) for c in comps]
    viol = []
    states = []
    canon_text = None
    path = None
    base_obs = None
    if case.get("run"):
        path = sandbox.write_csv([["k", "1"], ["n", "2"], ["K", "1"], ["k", "2"], ["n", "1"]])
    nlay = 0
    for text, sig in layouts(comps, maxdev, only_bounds=case.get("bounds", False)):
        nlay += 1
        if canon_text is None:
            canon_text = text
        cstr = f"match={text!r}"

        def bad(what, got, want):
            viol.append({"case": cstr, "diverge": f"{what}: got {got} expected {want}", "sig": f"{case['fam']}: {what}"})

        try:
            tree = LarkParser().parse(text)
        except Exception as e:  # noqa: BLE001
            bad("does not parse", f"{type(e).__name__}: {str(e)[:120]}", "a tree")
            continue
        if any(getattr(t, "data", None) == "_ambig" for t in tree.iter_subtrees()):
            bad("ambiguous parse (_ambig node)", True, False)
        variants = [("", f"$nofile[*]{text}")]
        if nlay == 1:
            variants.append(("outer comment: ", f"~ a note about this path, v1 ~ $nofile[*]{text}"))
            variants.append(("outer comment with a dollar sign: ", f"~ prices are in $ (USD) ~ $nofile[*]{text}"))
            variants.append(("trailing outer comment: ", f"$nofile[*]{text} ~ anything under $4.50 is dropped; see note: 7 ~"))
            variants.append(("multi-line outer comment: ", f"~ first line\n   second line, with: a field ~\n$nofile[*]{text}"))
        for tag, full in variants:
            p, _ = run.new_path(("collect",), printer=False)
            try:
                with sandbox.capture_stdout():
                    m = p.parse(full, disposably=True)
                got = [dump(e[0].children[0]) for e in m.expressions]
            except Exception as e:  # noqa: BLE001
                got = f"EXC {type(e).__name__}: {str(e)[:120]}"
            if got != exp:
                bad(f"{tag}component tree != source", got, exp)
        if path is not None:
            o = run.run_csvpath(f"${path}[*]{text}")
            rec = {k: o[k] for k in ("lines", "vars", "priv", "printouts", "scan_count", "match_count", "is_valid", "errors", "exc")}  # priv: the generated names of unnamed bookkeeping variables
            if base_obs is None:
                base_obs = rec
                for pre, post in (("~ about: nothing ~ ", ""), ("~ prices are in $ (USD) ~ ", ""), ("", " ~ under $4.50 ~")):
                    oc = run.run_csvpath(f"{pre}${path}[*]{text}{post}")
                    recc = {k: oc[k] for k in rec}
                    if recc != rec:
                        bad("an outer comment without settings changed the run", recc, rec)
            elif rec != base_obs:
                bad("a layout change altered the run results", rec, base_obs)
        states.append(run.h64((exp, sig)))
    depth2 = any(isinstance(e, list) and any(isinstance(x, list) and x and isinstance(x[0], str) and x[0] in ("Function", "Equality") for x in e[1:] if isinstance(x, list)) for e in exp)
    return {
        "viol": viol,
        "states": states,
        "transitions": nlay,
        "nontrivial": depth2 or len(comps) > 1 or any(e[0] == "Function" and e[3] for e in exp),
        "outcome": run.h64(exp),
        "fingerprint": run.h64((canon_text, [v["diverge"] for v in viol])),
        "extra": {"layouts_parsed": nlay},
    }
