"""C04 - the validity verdict is False exactly when the csvpath failed the file."""
import itertools
import os

from models import refinterp

ID = "C04"
RULE = (
    "two families: (standalone) programs placing fail()/fail_all()/fail_and_stop() in executing and non-executing contexts (right of "
    "'->', after a firing skip()/stop(), inside not/and/or, never-true condition, after an erroring component) and error-provoking "
    "components under all 8 subsets of {fail, collect, stop} x every file of <=3 records over {k,n} x {numeric,non-numeric} + blank: "
    "compared with models/refinterp.py on final is_valid, valid() at the start of every line, failed() at the end of every line, and "
    "monotonicity of the trace; (group) every ordered group of 1..2 (thorough 3) members from {never fails, fails at a k line, errors "
    "under a fail policy, stops early, run-mode no-run} x files incl. the empty file x six run methods: results_manager.is_valid(name), "
    "the run manifest's all_valid and the member manifests' valid must equal the conjunction of the members' CsvPath.is_valid; "
    "(reuse) a clean group run on the SAME CsvPaths instance right after a run in which fail()/fail_all()/fail_and_stop() executed, for every pair of run methods, must start valid; non-trivial = some line failed the file / some member is invalid; state = (validity, stopped, record)"
)
BOUNDS = {
    "quick": "16 fail contexts + 8 policy subsets x 6 error programs x 156 files of <=3 records; 5 singles + 20 pairs x 8 files x 6 methods",
    "thorough": "same programs x all 3,906 files of <=5 records; singles, pairs, 60 triples x 12 files x 6 methods",
}
CHUNK = 150
BUDGET = {"quick": 600, "thorough": 3400}
ASSUMPTIONS = [
    "for erroring components only valid() at the start of the following lines and the final verdict are asserted (the statement does not "
    "say at which point of the erroring line the policy is applied)",
    "a member that stopped early and never failed counts as valid (the statement)",
]


def fn(name, quals=(), args=()):
    return ["f", name, list(quals), list(args)]


C = ["==", ["h", 0], ["t", "k"]]
VM = fn("push", [], [["t", "v"], fn("valid")])
FM = fn("push", [], [["t", "f"], fn("failed")])
CONTEXTS = {
    "C->fail()": [["->", C, fn("fail")]],
    "fail()": [fn("fail")],
    "C->fail_and_stop()": [["->", C, fn("fail_and_stop")]],
    "fail_and_stop(C)": [fn("fail_and_stop", [], [C])],
    "skip(C) fail()": [fn("skip", [], [C]), fn("fail")],
    "stop(C) fail()": [fn("stop", [], [C]), fn("fail")],
    "C->stop() fail()": [["->", C, fn("stop")], fn("fail")],
    "not(C)->fail()": [["->", fn("not", [], [C]), fn("fail")]],
    "and(C,yes())->fail()": [["->", fn("and", [], [C, fn("yes")]), fn("fail")]],
    "or(C,no())->fail()": [["->", fn("or", [], [C, fn("no")]), fn("fail")]],
    "no()->fail()": [["->", fn("no"), fn("fail")]],
    "C->fail_all()": [["->", C, fn("fail_all")]],
    "C->stop_all()": [["->", C, fn("stop_all")]],
    "stop_all(C) fail()": [fn("stop_all", [], [C]), fn("fail")],
    # fail() right of a last() form, firing for the first time on the final line (the path is 'frozen' there - KF-C13-1 - but the verdict must
    # still change); only the final verdict is compared for these two
    "last()->push C->fail()": [["->", fn("last", ["nocontrib"]), fn("push", [], [["t", "L"], fn("line_number")])], ["->", C, fn("fail")]],
    "last()->push fail()": [["->", fn("last", ["nocontrib"]), fn("push", [], [["t", "L"], fn("line_number")])], ["->", fn("last", ["nocontrib"]), fn("fail")]],
    "failed()->stop() C->fail()": [["->", fn("failed"), fn("stop")], ["->", C, fn("fail")]],
    "fail_and_stop(above(add(#1,1),100))": [fn("fail_and_stop", [], [fn("above", [], [fn("add", [], [["h", 1], ["t", 1]]), ["t", 100]])])],
    "fail_and_stop(above(add(#1,1),1))": [fn("fail_and_stop", [], [fn("above", [], [fn("add", [], [["h", 1], ["t", 1]]), ["t", 1]])])],
    "stop(above(add(#1,1),100)) C->fail()": [fn("stop", [], [fn("above", [], [fn("add", [], [["h", 1], ["t", 1]]), ["t", 100]])]), ["->", C, fn("fail")]],
}
ERR = ["=", ["v", "e"], [], fn("add", [], [["h", 1], ["t", 1]])]
ERRPROGS = {
    "err": [ERR],
    "err C->fail()": [ERR, ["->", C, fn("fail")]],
    "err C->stop() yes()": [ERR, ["->", C, fn("stop")], fn("yes")],
    "err stop(C) yes()": [ERR, fn("stop", [], [C]), fn("yes")],
    "err skip(C) yes()": [ERR, fn("skip", [], [C]), fn("yes")],
    "fail_and_stop(erroring condition)": [fn("fail_and_stop", [], [fn("above", [], [fn("add", [], [["h", 1], ["t", 1]]), ["t", 100]])])],
}
POLICIES = [[f for i, f in enumerate(("fail", "collect", "stop")) if m >> i & 1] for m in range(8)]
ROWS = {"k": ["k", "1"], "n": ["n", "1"], "K": ["k", "x"], "N": ["n", "x"], "b": [], "s": []}  # s: a one-cell row (see run_case)

GM = {
    "ok": "~ id: ok ~ $[*][yes()]",
    "failk": '~ id: failk ~ $[*][#0 == "k" -> fail()]',
    "errfail": "~ id: errfail ~ $[*][@e = add(#1, 1)]",
    "stops": '~ id: stops ~ $[*][#0 == "k" -> stop()]',
    "norun": "~ id: norun run-mode: no-run ~ $[*][fail()]",
    "failall": '~ id: failall ~ $[*][#0 == "k" -> fail_all()]',
    # an error raised OUTSIDE the match components (the collect() projection on a row too short to have column 2) and handled by the
    # run under a policy with 'fail': whatever verdict the member ends with, the aggregates must be the conjunction
    "proj": "~ id: proj ~ $[*][collect(2) yes()]",
}
GFILES = ["", "n", "k", "nk", "K", "nN", "b", "kn", "ns", "sk", "nKk", "bn", "N", "kK"]


def files(nmax):
    for n in range(0, nmax + 1):
        for pat in itertools.product("knKNb", repeat=n):
            yield "".join(pat)


def cases(tier, seed):
    from mcx import groups

    nmax = 3 if tier == "quick" else 5
    for pat in files(nmax):
        for name in CONTEXTS:
            yield {"kind": "ctx", "prog": name, "file": pat, "policy": ["collect"]}
        for name in ERRPROGS:
            for pol in POLICIES:
                yield {"kind": "err", "prog": name, "file": pat, "policy": pol}
                if len(pat) <= 2:
                    # validation-mode comments naming a stop word, a fail word, or both: each named flag overrides the policy, the others come from it
                    for vm in ("no-stop", "stop", "fail", "no-fail", "fail, no-stop"):
                        yield {"kind": "err", "prog": name, "file": pat, "policy": pol, "vm": vm}
    # "a run starts valid": a second run on the SAME CsvPaths instance after a run in which fail()/fail_all()/fail_and_stop() executed
    for first in ("failall", "failk", "fas"):
        for m1 in groups.METHODS:
            for m2 in groups.METHODS:
                for f in ("k", "nk", "kn"):
                    yield {"kind": "reuse", "first": first, "m1": m1, "m2": m2, "file": f}
    gfiles = GFILES[:10] if tier == "quick" else GFILES
    sizes = (1, 2) if tier == "quick" else (1, 2, 3)
    for k in sizes:
        for grp in itertools.permutations(list(GM), k):
            for f in gfiles:
                for m in groups.METHODS:
                    yield {"kind": "group", "group": list(grp), "file": f, "method": m}


def sample(case):
    if case["kind"] in ("group", "reuse"):
        return case
    comps = _comps(case)
    return {"file": case["file"], "policy": case["policy"], "match": refinterp.render_match(comps)}


def _comps(case):
    if case["kind"] == "ctx":
        return [VM] + CONTEXTS[case["prog"]] + [FM]
    return [VM] + ERRPROGS[case["prog"]]


def run_case(case):
    from mcx import run, sandbox

    viol = []
    kind = case["kind"]

    def bad(what, got, want, cstr):
        viol.append({"case": cstr, "diverge": f"{what}: got {got} expected {want}", "sig": f"{kind} {case.get('prog', '')}: {what}"})

    if kind in ("ctx", "err"):
        pat, pol = case["file"], case["policy"]
        rows = [list(ROWS[ch]) + ([str(i)] if ch != "b" else []) for i, ch in enumerate(pat)]
        comps = _comps(case)
        vm = case.get("vm")
        words = [w.strip() for w in vm.split(",")] if vm else []
        eff = list(pol)
        for flag in ("stop", "fail"):
            if flag in words:
                eff = [f for f in eff if f != flag] + [flag]
            elif "no-" + flag in words:
                eff = [f for f in eff if f != flag]
        it = refinterp.Interp(comps, True, policy=eff or ["quiet"])
        ret = it.run(rows, set(range(len(rows))), None)
        path = sandbox.write_csv(rows)
        text = f"${path}[*]{refinterp.render_match(comps)}"
        if vm:
            text = f"~ validation-mode: {vm} ~ " + text
        o = run.run_csvpath(text, policy=pol or ["quiet"])
        cstr = f"file={pat!r} policy={','.join(pol) or '-'}{' validation-mode=' + vm if vm else ''} match={refinterp.render_match(comps)}"
        if o["exc"]:
            bad("exception", o["exc"], None, cstr)
        else:
            if o["is_valid"] != it.valid:
                bad("final is_valid", o["is_valid"], it.valid, cstr)
            gv, ev = o["vars"].get("v"), it.vars.get("v")
            if gv != ev:
                bad("valid() at the start of each line", gv, ev, cstr)
            if kind == "ctx" and not case["prog"].startswith("last()"):
                gf, ef = o["vars"].get("f"), it.vars.get("f")
                if gf != ef:
                    bad("failed() at the end of each line", gf, ef, cstr)
                if [int(l[-1]) for l in o["lines"]] != ret:
                    bad("returned lines", [int(l[-1]) for l in o["lines"]], ret, cstr)
            tr = list(gv or [])
            if any(a is False and b is True for a, b in zip(tr, tr[1:])):
                bad("is_valid returned to True within the run", tr, "monotone", cstr)
            if o["stopped"] is False and it.stopped:
                bad("stopped", o["stopped"], it.stopped, cstr)
        states = [run.h64((case["prog"], tuple(pol), t.get("i"), it.valid)) for t in it.trace] + [run.h64((it.valid, it.stopped, len(rows)))]
        return {"viol": viol, "states": states, "transitions": len(it.trace), "nontrivial": not it.valid, "outcome": (it.valid, tuple(it.vars.get("v") or [])), "fingerprint": run.h64({k: v for k, v in o.items() if k != "stdout"})}

    from mcx import groups
    from models import refarchive

    if kind == "reuse":
        first = {"failall": '~ id: fa ~ $[*][#0 == "k" -> fail_all()]', "failk": GM["failk"], "fas": '~ id: fs ~ $[*][#0 == "k" -> fail_and_stop()]'}[case["first"]]
        pat = case["file"]
        rows = [list(ROWS[ch]) + [str(i)] for i, ch in enumerate(pat)]
        cp = groups.fresh(policy="collect")
        src = sandbox.write_csv(rows)
        cp.file_manager.add_named_file(name="d", path=src)
        cp.paths_manager.add_named_paths(name="g1", paths=[first, GM["ok"]])
        cp.paths_manager.add_named_paths(name="g2", paths=[GM["ok"], GM["stops"]])
        cstr = f"reuse first-run={case['first']} via {case['m1']} then clean group via {case['m2']} file={pat!r}"
        l1, e1 = groups.run_method(cp, case["m1"], name="g1")
        if e1 is not None:
            bad("first run raised", f"{type(e1).__name__}: {str(e1)[:100]}", None, cstr)
        l2, e2 = groups.run_method(cp, case["m2"], name="g2")
        if e2 is not None:
            bad("second run raised", f"{type(e2).__name__}: {str(e2)[:100]}", None, cstr)
        rs = groups.results_of(cp, "g2")
        verdicts = [r.csvpath.is_valid for r in rs]
        if verdicts != [True] * len(rs) or len(rs) != 2:
            bad("a run on a reused instance did not start valid (members of a clean group are invalid)", verdicts, [True, True], cstr)
        try:
            agg = cp.results_manager.is_valid("g2")
        except Exception as e:  # noqa: BLE001
            agg = f"EXC {type(e).__name__}"
        if agg is not True:
            bad("results_manager.is_valid of the clean second run", agg, True, cstr)
        rd = groups.run_dirs("g2")
        if rd:
            man = refarchive.load_json(os.path.join(rd[-1], "manifest.json"))
            if man.get("all_valid") is not True:
                bad("run manifest all_valid of the clean second run", man.get("all_valid"), True, cstr)
        return {"viol": viol, "states": [run.h64((case["first"], case["m1"], case["m2"], pat))], "transitions": 2 * len(rows), "nontrivial": "k" in pat, "outcome": run.h64((verdicts, agg)), "fingerprint": run.h64((cstr, [v["diverge"] for v in viol]))}

    # group aggregation

    grp, pat, method = case["group"], case["file"], case["method"]
    rows = [(["s"] if ch == "s" else list(ROWS[ch]) + ([str(i)] if ch != "b" else [])) for i, ch in enumerate(pat)]
    cp = groups.fresh(policy="collect, fail")
    src = sandbox.write_csv(rows)
    groups.register(cp, src, [GM[g] for g in grp])
    lines, exc = groups.run_method(cp, method)
    cstr = f"group={grp} file={pat!r} method={method}"
    if exc is not None:
        bad("run raised", f"{type(exc).__name__}: {str(exc)[:100]}", None, cstr)
        return {"viol": viol, "states": [], "transitions": 1, "nontrivial": False, "outcome": "exc", "fingerprint": run.h64(viol)}
    results = groups.results_of(cp)
    verdicts = [r.csvpath.is_valid for r in results]
    want = all(verdicts)
    # the members' own verdicts against a standalone run (so that the conjunction is a conjunction of the right things)
    regfile = cp.file_manager.get_named_file("d")
    for g, r in zip(grp, results):
        if "proj" in grp:
            continue  # standalone the projection error escapes instead of being handled, and in a breadth-first run the members after a
            # projecting member are handed the projected line (line-rewriting members are outside C08): only the aggregation is asserted
        if "failall" in grp and g != "failall":
            continue  # what fail_all() does to the OTHER members of the run is not part of the statement: only the executing csvpath is asserted
        text = GM[g]
        j = text.index("$")
        a = run.run_csvpath(text[:j] + "$" + regfile + text[j + 1 :], "fast_forward", policy=("collect", "fail"))
        if a["is_valid"] != r.csvpath.is_valid:
            bad(f"member {g}: verdict differs from the standalone run", r.csvpath.is_valid, a["is_valid"], cstr)
    try:
        got = cp.results_manager.is_valid("g")
    except Exception as e:  # noqa: BLE001
        got = f"EXC {type(e).__name__}"
    if got != want:
        bad("results_manager.is_valid(name) != conjunction of the members' verdicts", got, f"{want} (members {verdicts})", cstr)
    rdirs = groups.run_dirs()
    if rdirs:
        man = refarchive.load_json(os.path.join(rdirs[0], "manifest.json"))
        if man.get("all_valid") != want:
            bad("run manifest all_valid != conjunction of the members' verdicts", man.get("all_valid"), want, cstr)
        for g, r in zip(grp, results):
            mp = os.path.join(rdirs[0], g, "manifest.json")
            if os.path.isfile(mp):
                mm = refarchive.load_json(mp)
                if mm.get("valid") != r.csvpath.is_valid:
                    bad(f"member manifest valid ({g})", mm.get("valid"), r.csvpath.is_valid, cstr)
            else:
                bad(f"member manifest missing ({g})", None, "present", cstr)
    return {"viol": viol, "states": [run.h64((tuple(grp), pat, tuple(verdicts)))], "transitions": len(grp) * max(1, len(rows)), "nontrivial": not want, "outcome": run.h64((tuple(verdicts), got)), "fingerprint": run.h64((cstr, [v["diverge"] for v in viol]))}
