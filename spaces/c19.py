"""C19 - results depend only on the csvpath, the file and the configuration (differential against a fresh process)."""
import itertools
import json
import os
import shutil
import subprocess
import sys
import tempfile

ID = "C19"
RULE = (
    "job alphabet J of (csvpath, file) jobs chosen to touch every process-global or on-disk shared thing (function registry misses, "
    "structural validation failures, warnings-as-errors, reset_headers, collect projections, CsvPaths jobs on files whose header cells "
    "contain quotes, delimiters, spaces, embedded newlines, an empty header row; the same path bound to two files); the reference "
    "record of each job = the job run FIRST in its own fresh interpreter; then every ordered pair of jobs (thorough: every triple over "
    "a subset) is run in a long-lived process without resetting cache/ or the process (once with a new CsvPaths per job, once - for the CsvPaths jobs - on one shared CsvPaths instance whose in-memory header cache is warm), and every job's record must equal its fresh "
    "twin; for CsvPaths jobs a second fresh process reusing the first one's sandbox (cache populated by an earlier process) must "
    "agree too; two jobs exist both as a directly created CsvPath and as a CsvPaths-managed run and must give the same lines, variables, verdict and counters; non-trivial = the history contains two different jobs; state = (job, position in history)"
)
BOUNDS = {
    "quick": "40 jobs (two CsvPaths-created CsvPath objects on same-named files in different directories; one of them aborting under validation-mode raise; two printing $.csvpath references under different dialects; three under non-default dialects, two on a file with blank records, two on a file whose header cells need non-idempotent cleaning, two on a one-record file): 40 fresh-process references + 18 warm-cache fresh processes; all 1,600 ordered pairs (fresh CsvPaths per job) + 324 ordered pairs of CsvPaths jobs on ONE shared instance + 1,000 triples over a 10-job subset; 6 direct-vs-managed twin pairs",
    "thorough": "all pairs, all 64,000 triples, shared-instance triples, sequences of 4 over a 6-job subset, of 5 over 4 jobs, of 6 over 3 jobs",
}
CHUNK = 20
BUDGET = {"quick": 600, "thorough": 3400}
ASSUMPTIONS = [
    "records compare lines, variables, printouts, header names, error (line, class) and verdict; file paths inside messages are not compared",
    "not asserted: a file rewritten in place under the same path (the statement fixes 'the file')",
    "time- and random-valued functions are excluded (the statement excepts them)",
]

A = [["h1", "h2"], ["k", "1"], ["n", "2"], ["k", "3"]]
B = [["x", "y", "z"], ["n", "9", "q"], ["k", "8", "r"]]
HQ = [['"q', "b"], ["k", "1"]]            # header cell starting with the quote character
HD = [["a,b", "c"], ["k", "1"]]           # header cell containing the delimiter
HS = [[" a b ", "c d"], ["k", "1"]]       # spaces
HN = [["a\nb", "c"], ["k", "1"]]          # embedded newline
HE = [[], ["k", "1"], ["n", "2"]]         # blank first record
HQ2 = [["it's", 'say "x"'], ["k", "1"]]
HP = [["name |", "; x", "a`b "], ["k", "1", "2"]]  # delimiter-like characters at the edge of a header cell, next to a space: cleaning is not idempotent
HB = [["h1", "h2"], ["k", "1"], [], ["n", "2"], [], [], ["k", "3"], []]  # blank records: physical and data line totals differ

JOBS = [
    {"kind": "path", "match": '[#0 == "k"]', "rows": A},
    {"kind": "path", "match": "[nofunc(#0)]", "rows": A},
    {"kind": "path", "match": "[@c = count() count() == 2]", "rows": A},
    {"kind": "path", "match": '[add("a")]', "rows": A},
    {"kind": "path", "match": "[regex(/[[]k/, #0)]", "rows": A},
    {"kind": "path", "match": '[#0 == "n" -> reset_headers() push("h", header_name(0))]', "rows": A},
    {"kind": "path", "match": "[collect(#1) yes()]", "rows": A},
    {"kind": "path", "match": '[#0 == "k"]', "rows": B},
    {"kind": "path", "match": '[tally(#0) @s = sum(#1) last() -> print("sum $.variables.s ")]', "rows": A},
    {"kind": "path", "match": "[@e = add(#0, 1)]", "rows": A},
    {"kind": "path", "match": "[import(\"nothing\")]", "rows": A},
    {"kind": "path", "match": "[@d = date(#1, \"%Y\") above(#1, 1)]", "rows": A},
    {"kind": "path", "match": '[push("h", header_name(0)) @n = count_headers()]', "rows": HQ},
    {"kind": "paths", "match": '[push("h", header_name(0)) @n = count_headers() #0 == "k"]', "rows": A},
    {"kind": "paths", "match": '[push("h", header_name(0)) @n = count_headers()]', "rows": HQ},
    {"kind": "paths", "match": '[push("h", header_name(0)) @n = count_headers()]', "rows": HD},
    {"kind": "paths", "match": '[push("h", header_name(0)) @n = count_headers() @v = #"a b"]', "rows": HS},
    {"kind": "paths", "match": '[push("h", header_name(0)) @n = count_headers()]', "rows": HN},
    {"kind": "paths", "match": '[push("h", header_name(0)) @n = count_headers()]', "rows": HE},
    {"kind": "paths", "match": '[push("h", header_name(1)) @n = count_headers()]', "rows": HQ2},
    {"kind": "paths", "match": '[#0 == "k"]', "rows": B},
    {"kind": "paths", "match": "[nofunc(#0)]", "rows": A},
    {"kind": "paths", "match": '[append("extra", "x") yes()]', "rows": A},
    {"kind": "paths", "match": "[@n = count_headers()]", "rows": A},
    {"kind": "paths", "match": '[#0 == "n" -> reset_headers() @n = count_headers()]', "rows": A},
    {"kind": "path", "match": '[append("extra", "x") @n = count_headers()]', "rows": A},
    {"kind": "paths", "match": '[push("h", header_name(1)) @n = count_headers() #h1 == "k"]', "rows": A, "dialect": [";", '"']},
    {"kind": "paths", "match": '[push("h", header_name(1)) @n = count_headers()]', "rows": HQ2, "dialect": [",", "'"]},
    {"kind": "path", "match": '[push("h", header_name(1)) @n = count_headers() #h1 == "k"]', "rows": A, "dialect": [";", '"']},
    {"kind": "path", "match": '[@t = total_lines() @c = count_lines() push("ln", line_number()) last() -> @l = line_number()]', "rows": HB},
    {"kind": "paths", "match": '[@t = total_lines() @c = count_lines() push("ln", line_number()) last() -> @l = line_number()]', "rows": HB},
    {"kind": "paths", "match": '[push("h", header_name(0)) push("h", header_name(1)) push("h", header_name(2)) @n = count_headers()]', "rows": HP},
    {"kind": "path", "match": '[push("h", header_name(0)) push("h", header_name(1)) push("h", header_name(2)) @n = count_headers()]', "rows": HP},
    # a file of exactly ONE record: the last line number is 0 (a value a cache round trip must not lose)
    {"kind": "paths", "match": '[last.nocontrib() -> @l = line_number() @t = total_lines() yes()]', "rows": [["h1", "h2"]]},
    {"kind": "path", "match": '[last.nocontrib() -> @l = line_number() @t = total_lines() yes()]', "rows": [["h1", "h2"]]},
    # a CsvPaths job that ABORTS (validation-mode raise) after having collected two lines: what it leaves behind must not leak into
    # the next job on the same instance
    {"kind": "paths", "match": "[@q = add(#1, 1)]", "rows": [["7", "1"], ["8", "2"], ["9", "x"]], "vm": "raise"},
    # prints with $.csvpath references under two different dialects (runtime data must not be shared between CsvPath instances)
    {"kind": "path", "match": '[print("n $.csvpath.count_lines of $.csvpath.total_lines ")]', "rows": A},
    {"kind": "path", "match": '[print("n $.csvpath.count_lines of $.csvpath.total_lines ")]', "rows": A, "dialect": [";", "'"]},
    # CsvPaths-created CsvPath objects aimed at two DIFFERENT files that have the same base name in different directories
    {"kind": "cpath", "sub": "d1", "match": '[@t = total_lines() @n = count_headers() push("h", header_name(0)) yes()]', "rows": [["id", "name"], ["1", "a"], ["2", "b"]]},
    {"kind": "cpath", "sub": "d2", "match": '[@t = total_lines() @n = count_headers() push("h", header_name(0)) yes()]', "rows": B + [["k", "7", "s"], ["n", "6", "t"]]},
]
PATHS_JOBS = [i for i, j in enumerate(JOBS) if j["kind"] == "paths"]
SUB10 = [0, 1, 2, 3, 4, 5, 12, 14, 17, 19]
SUB6 = [1, 2, 5, 14, 17, 21]

TWINS = [(7, 20), (12, 14), (28, 26), (29, 30), (32, 31), (34, 33)]  # same csvpath and file: CsvPath created directly vs by a CsvPaths instance

REFS = {}
WARM = {}


def _spawn(idx, root=None):
    cmd = ["/venv/bin/python", os.path.join(os.path.dirname(os.path.dirname(os.path.abspath(__file__))), "mcx", "freshjob.py"), "c19", str(idx)]
    if root:
        cmd += ["--root", root]
    env = dict(os.environ)
    env["PYTHONHASHSEED"] = "0"
    return subprocess.Popen(cmd, stdout=subprocess.PIPE, stderr=subprocess.PIPE, env=env, text=True)


def _collect(p):
    out, err = p.communicate(timeout=300)
    for line in out.splitlines():
        if line.startswith("@@RECORD@@"):
            return json.loads(line[len("@@RECORD@@"):])
    return {"spawn_failed": (out[-300:], err[-600:])}


def prepare(tier):
    """reference twins: each job first in its own fresh interpreter; CsvPaths jobs again in a second fresh process that reuses the
    first one's sandbox (cache + archive populated by an earlier process)."""
    base = tempfile.mkdtemp(prefix="mcx-c19-")
    try:
        procs = {}
        for i, j in enumerate(JOBS):
            root = os.path.join(base, f"j{i}") if j["kind"] == "paths" else None
            procs[i] = _spawn(i, root)
        for i, p in procs.items():
            REFS[i] = _collect(p)
        procs = {i: _spawn(i, os.path.join(base, f"j{i}")) for i in PATHS_JOBS}
        for i, p in procs.items():
            WARM[i] = _collect(p)
    finally:
        shutil.rmtree(base, ignore_errors=True)


def cases(tier, seed):
    if not REFS:
        prepare(tier)
    n = len(JOBS)
    for i in range(n):
        yield {"hist": [i], "warmcheck": True}
    for a, b in itertools.product(range(n), repeat=2):
        yield {"hist": [a, b]}
    pj = [i for i, j in enumerate(JOBS) if j["kind"] == "paths"]
    for a, b in itertools.product(pj, repeat=2):
        yield {"hist": [a, b], "share": True}
    if tier == "thorough":
        for t in itertools.product(pj, repeat=3):
            yield {"hist": list(t), "share": True}
    sub = SUB10 if tier == "quick" else list(range(n))
    for t in itertools.product(sub, repeat=3):
        yield {"hist": list(t)}
    if tier == "thorough":
        for t in itertools.product(SUB6, repeat=4):
            yield {"hist": list(t)}
        for t in itertools.product(SUB6[:4], repeat=5):
            yield {"hist": list(t)}
        for t in itertools.product([5, 14, 17], repeat=6):
            yield {"hist": list(t)}


def sample(case):
    return {"history": [JOBS[i]["match"] + " on " + json.dumps(JOBS[i]["rows"][0]) for i in case["hist"]]}


def run_job(job, fresh=False, shared=None):
    """-> JSON-able record. Never resets the process; the caller decides about directories. shared: a dict holding one CsvPaths
    instance reused by all CsvPaths jobs of a history (in-memory header/line cache warm)."""
    from mcx import run, sandbox

    rows = job["rows"]
    rec = {}
    dl, qc = job.get("dialect") or [",", '"']
    if job["kind"] == "path":
        path = sandbox.write_csv(rows, delimiter=dl, quotechar=qc)
        o = run.run_csvpath(f"${path}[*]{job['match']}", delimiter=dl, quotechar=qc)
        rec = {
            "lines": o["lines"], "vars": o["vars"], "printouts": o["printouts"], "is_valid": o["is_valid"],
            "errors": [[e[0], e[1]] for e in o["errors"]], "exc": o["exc"][0] if o["exc"] else None,
            "scan_count": o["scan_count"], "match_count": o["match_count"],
        }
    elif job["kind"] == "cpath":
        from csvpath import CsvPaths

        d = os.path.join(sandbox.root(), "data", job["sub"])
        os.makedirs(d, exist_ok=True)
        sandbox.write_csv(rows, path=os.path.join(d, "same.csv"), delimiter=dl, quotechar=qc)
        cp = shared.setdefault("cpx", CsvPaths(print_default=False)) if shared is not None else CsvPaths(print_default=False)
        p = cp.csvpath()
        exc = None
        lines = None
        try:
            with sandbox.capture_stdout():
                p.parse(f"$data/{job['sub']}/same.csv[*]{job['match']}")
                lines = [list(l) for l in p.collect()]
        except Exception as e:  # noqa: BLE001
            exc = e
        pub, _ = run.split_vars(p.variables)
        rec = {"lines": lines, "vars": pub, "is_valid": p.is_valid, "exc": type(exc).__name__ if exc else None, "scan_count": p.scan_count, "match_count": p.match_count, "headers": list(p.headers or [])}
    else:
        from csvpath import CsvPaths
        from mcx import groups

        if shared is not None:
            k = "cp" + dl + qc
            if k not in shared:
                shared[k] = CsvPaths(print_default=False, delimiter=dl, quotechar=qc)
            cp = shared[k]
        else:
            cp = CsvPaths(print_default=False, delimiter=dl, quotechar=qc)
        src = os.path.join(sandbox.root(), "data", "c19src.csv")
        sandbox.write_csv(rows, path=src, delimiter=dl, quotechar=qc)
        name = "d" + run.h64(rows)
        g = "g" + run.h64(job["match"])
        exc = None
        try:
            cp.file_manager.add_named_file(name=name, path=src)
            vm = f" validation-mode: {job['vm']}" if job.get("vm") else ""
            cp.paths_manager.add_named_paths(name=g, paths=[f"~ id: j{vm} ~ $[*]{job['match']}"])
        except Exception as e:  # noqa: BLE001
            exc = e
        lines = None
        if exc is None:
            lines, exc = groups.run_method(cp, "collect_paths", name=g, fname=name)
        rs = groups.results_of(cp, g)
        if rs:
            r = rs[0]
            pub, _ = run.split_vars(r.csvpath.variables)
            try:
                ls = [list(l) for l in r.lines.next()]
            except Exception as e:  # noqa: BLE001
                ls = f"EXC {type(e).__name__}"
            rec = {
                "lines": ls, "vars": pub, "printouts": [x for v in r.get_printouts().values() for x in v], "is_valid": r.csvpath.is_valid,
                "errors": [[e.line_count, type(e.error).__name__] for e in r.errors], "exc": type(exc).__name__ if exc else None,
                "scan_count": r.csvpath.scan_count, "match_count": r.csvpath.match_count, "headers": list(r.csvpath.headers or []),
            }
        else:
            rec = {"exc": type(exc).__name__ if exc else None, "no_result": True}
    return json.loads(json.dumps(rec, ensure_ascii=False, default=repr))


def run_case(case):
    from mcx import run, sandbox

    hist = case["hist"]
    sandbox.reset_dirs("archive", "inputs", "cache")
    viol = []
    cstr = "history=" + " ; ".join(f"J{i}" for i in hist)
    states = []

    def bad(what, got, want, i):
        viol.append({"case": cstr + f" :: J{i} = {JOBS[i]['kind']} {JOBS[i]['match']} on {json.dumps(JOBS[i]['rows'])[:60]}", "diverge": f"{what}: got {got} expected {want}", "sig": f"J{i} {what.split(':')[0]}"})

    shared = {} if case.get("share") else None
    if shared is not None:
        cstr += " (one CsvPaths instance)"
    for pos, i in enumerate(hist):
        ref = REFS.get(i)
        if ref is None or "spawn_failed" in ref:
            bad("HARNESS-ERROR no fresh-process reference", ref, "a record", i)
            continue
        rec = run_job(JOBS[i], shared=shared)
        if rec != ref:
            keys = sorted(k for k in set(rec) | set(ref) if rec.get(k) != ref.get(k))
            bad(f"record differs from the same job run first in a fresh process: {keys}", {k: rec.get(k) for k in keys}, {k: ref.get(k) for k in keys}, i)
        states.append(run.h64((i, pos)))
    if case.get("warmcheck"):
        for a, b in TWINS:
            if hist[0] == a and a in REFS and b in REFS:
                for k in ("lines", "vars", "is_valid", "scan_count", "match_count"):
                    if REFS[a].get(k) != REFS[b].get(k):
                        bad(f"direct CsvPath vs CsvPaths-managed run differ in {k}", REFS[b].get(k), REFS[a].get(k), a)
    if case.get("warmcheck") and hist[0] in WARM:
        i = hist[0]
        if WARM[i] != REFS[i]:
            keys = sorted(k for k in set(WARM[i]) | set(REFS[i]) if WARM[i].get(k) != REFS[i].get(k))
            bad(f"fresh process with the cache populated by an earlier process differs from the cold one: {keys}", {k: WARM[i].get(k) for k in keys}, {k: REFS[i].get(k) for k in keys}, i)
    return {
        "viol": viol,
        "states": states,
        "transitions": len(hist),
        "nontrivial": len(set(hist)) > 1,
        "outcome": run.h64([REFS.get(i) for i in hist]),
        "fingerprint": run.h64((cstr, [v["diverge"] for v in viol])),
    }
