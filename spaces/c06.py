"""C06 - lines are delivered as they are in the file; headers are the first data line."""
import itertools

ID = "C06"
RULE = (
    "three families, ground truth = the rows handed to csv.writer: (cells) every single-record file of 0..3 cells over an 18-cell "
    "hostile alphabet (delimiters, both quote characters, embedded newline, non-ASCII, a leading U+FEFF, padding, backslashes) under each of 8 dialects "
    "{, ; | tab} x {\" '}: the returned line equals the record cell by cell and the header names equal the cleaned cells; (records) "
    "every 2-record file (thorough 3) over rows of <=2 cells from a 7-cell sub-alphabet incl. blank records, 8 dialects: returned "
    "lines == the non-blank rows in order (an unbalanced quote must not swallow the next record); (headers) every header row of 1..3 "
    "unique grammar-expressible names x every data row length 1..len+1: '@n = #name' and '@i = #index' read the same cell, and on a "
    "short row both read absent with no error; also 12-record files of ragged rows (1..6 cells) cycling through the alphabet with a blank record at every position; non-trivial = the file contains a character that needs quoting or a ragged row; "
    "state = (dialect, file, records consumed)"
)
BOUNDS = {
    "quick": "6,175 single-record files x 8 dialects; 3,249 two-record files x 8 dialects; 85 header rows x 4 data lengths",
    "thorough": "as quick + all 83,521 four-cell single records x 8 dialects + all three-record files over a 4-cell sub-alphabet (21^3 x 8 dialects) and over a 5-cell one incl. blank records and embedded newlines (31^3 x 8) + CsvPaths serial and breadth-first delivery for the two-record family",
}
CHUNK = 200
BUDGET = {"quick": 600, "thorough": 3400}
ASSUMPTIONS = [
    "files are produced by csv.writer (QUOTE_MINIMAL, lineterminator \\n); cell text excludes CR (as the statement does)",
    "header cleaning = strip + removal of , ; | tab and backtick (docs/headers.md / the statement)",
]

H = ["", "a", " a ", "a,b", "a;b", "a|b", "a\tb", 'a"b', '"', "'", "a'b", "a\nb", "é", "日本", "x y", "a\\b", "c\\", "\ufeffa"]  # last: U+FEFF (a BOM when it is the first character of the file) belongs to the cell text
SUB6 = ["a", "", 'a"b', "a'b", "a,b", "a\nb", "c\\"]
SUB4 = ["a", '"', "'", "a;b"]
DIALECTS = [(d, q) for d in (",", ";", "|", "\t") for q in ('"', "'")]
HNAMES = ["a", "b2", "x_y", "h-1", "x y"]


def _rows(alpha, maxcells):
    out = [[]]
    for k in range(1, maxcells + 1):
        out += [list(t) for t in itertools.product(alpha, repeat=k)]
    return out


def cases(tier, seed):
    for row in _rows(H, 3):
        for d, q in DIALECTS:
            yield {"kind": "cells", "rows": [row], "d": d, "q": q}
    r2 = _rows(SUB6, 2)
    for a in r2:
        for b in r2:
            for d, q in DIALECTS:
                yield {"kind": "records", "rows": [a, b], "d": d, "q": q}
    # long files: 12 records cycling through the whole alphabet, blank records at every single position, ragged lengths 0..6
    for d, q in DIALECTS:
        for blank_at in [None] + list(range(12)):
            for shift in (0, 5):
                rows = []
                for i in range(12):
                    if blank_at == i:
                        rows.append([])
                    else:
                        rows.append([H[(i * 7 + j * 3 + shift) % len(H)] for j in range((i + shift) % 6 + 1)])
                yield {"kind": "records", "rows": rows, "d": d, "q": q}
    for k in (1, 2, 3):
        for hdr in itertools.permutations(HNAMES, k):
            for n in range(1, k + 2):
                yield {"kind": "headers", "hdr": list(hdr), "n": n}
    # duplicate header names (also names that only collide after cleaning): '#name' addresses the FIRST column carrying the name
    for hdr in (["id", "amount", "id"], ["id", " id;", "x"], ["a", "a"], ["x", "a", "b", "a"]):
        for n in range(1, len(hdr) + 2):
            yield {"kind": "headers", "hdr": hdr, "n": n, "dups": True}
    if tier == "quick":
        # CsvPaths delivery (serial and breadth-first) under non-default dialects: single records of <=2 cells over the sub-alphabet
        for a in r2:
            for d, q in ((";", '"'), (",", "'"), ("|", "'")):
                yield {"kind": "group", "rows": [a, ["z"]], "d": d, "q": q}
    if tier == "thorough":
        for row in itertools.product(H, repeat=4):
            for d, q in DIALECTS:
                yield {"kind": "cells", "rows": [list(row)], "d": d, "q": q}
        r5 = _rows(["a", "", 'a"b', "a'b", "a\nb"], 2)
        for a in r5:
            for b in r5:
                for c in r5:
                    for d, q in DIALECTS:
                        yield {"kind": "records", "rows": [a, b, c], "d": d, "q": q}
        r3 = _rows(SUB4, 2)
        for a in r3:
            for b in r3:
                for c in r3:
                    for d, q in DIALECTS:
                        yield {"kind": "records", "rows": [a, b, c], "d": d, "q": q}
        for a in r2:
            for b in r2:
                for d, q in DIALECTS[:4]:
                    yield {"kind": "group", "rows": [a, b], "d": d, "q": q}


def sample(case):
    return case


def clean(c):
    c = c.strip()
    for ch in ";,|\t`":
        c = c.replace(ch, "")
    return c


def _needs_quote(rows, d, q):
    return any(any((d in c) or (q in c) or ("\n" in c) for c in r) for r in rows) or len(set(len(r) for r in rows)) > 1


def run_case(case):
    from mcx import run, sandbox

    viol = []
    kind = case["kind"]

    def bad(what, got, want, cstr):
        viol.append({"case": cstr, "diverge": f"{what}: got {got!r} expected {want!r}", "sig": f"{kind}: {what}"})

    if kind in ("cells", "records"):
        rows, d, q = case["rows"], case["d"], case["q"]
        cstr = f"{kind} rows={rows!r} delimiter={d!r} quotechar={q!r}"
        path = sandbox.write_csv(rows, delimiter=d, quotechar=q)
        p, tp = run.new_path(("collect",), d, q)
        exc = None
        lines = None
        try:
            with sandbox.capture_stdout():
                p.parse(f"${path}[*][yes()]")
                lines = p.collect()
        except Exception as e:  # noqa: BLE001
            exc = e
        want = [r for r in rows if len(r) > 0]
        if exc is not None:
            bad("exception", f"{type(exc).__name__}: {str(exc)[:100]}", None, cstr)
        else:
            if [list(l) for l in lines] != want:
                bad("returned lines != records", [list(l) for l in lines], want, cstr)
            wh = [clean(c) for c in want[0]] if want else []
            if list(p.headers or []) != wh:
                bad("header names != cleaned cells of the first non-blank record", list(p.headers or []), wh, cstr)
            if p.errors:
                bad("errors", run.errors_of(p), [], cstr)
        states = [run.h64((d, q, rows, k)) for k in range(len(rows) + 1)]  # reader state after each record of this file/dialect
        return {"viol": viol, "states": states, "transitions": len(rows), "nontrivial": _needs_quote(rows, d, q), "outcome": run.h64((want,)), "fingerprint": run.h64((cstr, [v["diverge"] for v in viol]))}
    if kind == "group":
        from mcx import groups

        rows, d, q = case["rows"], case["d"], case["q"]
        cstr = f"group rows={rows!r} delimiter={d!r} quotechar={q!r}"
        want = [r for r in rows if len(r) > 0]
        for method in ("collect_paths", "collect_by_line"):
            cp = groups.fresh(policy="collect", delimiter=d, quotechar=q)
            src = sandbox.write_csv(rows, delimiter=d, quotechar=q)
            groups.register(cp, src, ["~ id: all ~ $[*][yes()]"])
            lines, exc = groups.run_method(cp, method)
            if exc is not None:
                bad(f"{method} raised", f"{type(exc).__name__}: {str(exc)[:100]}", None, cstr)
                continue
            rs = groups.results_of(cp)
            got = [list(l) for l in rs[0].lines.next()] if rs else None
            if got != want:
                bad(f"{method}: collected lines != records", got, want, cstr)
        return {"viol": viol, "states": [run.h64((d, q, "group", tuple(len(r) for r in rows)))], "transitions": 2 * len(rows), "nontrivial": _needs_quote(rows, d, q), "outcome": run.h64((want,)), "fingerprint": run.h64((cstr, [v["diverge"] for v in viol]))}
    # headers
    hdr, n = case["hdr"], case["n"]
    cstr = f"headers hdr={hdr!r} data-row-length={n}"
    data = [f"d{i}" for i in range(n)]
    path = sandbox.write_csv([hdr, data])
    comps = []
    cleaned = [clean(h) for h in hdr]
    first = {}
    for k, nm in enumerate(cleaned):
        first.setdefault(nm, k)
    for k, nm in enumerate(cleaned):
        ref = f'#"{nm}"' if " " in nm else f"#{nm}"
        comps.append(f"@n{k} = {ref}")
        comps.append(f"@i{k} = #{k}")
    o = run.run_csvpath(f"${path}[1][ {' '.join(comps)} ]")
    if o["exc"]:
        bad("exception", o["exc"], None, cstr)
    else:
        for k in range(len(hdr)):
            want = data[k] if k < n else None
            fk = first[cleaned[k]]
            wantn = data[fk] if fk < n else None
            if o["vars"].get(f"n{k}") != wantn:
                bad("#name value", o["vars"].get(f"n{k}"), wantn, cstr)
            if o["vars"].get(f"i{k}") != want:
                bad("#index value", o["vars"].get(f"i{k}"), want, cstr)
        if o["errors"]:
            bad("a header missing from a short row failed", o["errors"], [], cstr)
        if o["lines"] != [data]:
            bad("returned line", o["lines"], [data], cstr)
    return {"viol": viol, "states": [run.h64(("hdr", len(hdr), n))], "transitions": 1, "nontrivial": n != len(hdr), "outcome": run.h64((len(hdr), n)), "fingerprint": run.h64((cstr, [v["diverge"] for v in viol]))}
