"""C05 - errors in match components are handled exactly as the error policy says."""
import itertools

from models import refpolicy

ID = "C05"
RULE = (
    "case = (non-empty subset of {raise,collect,stop,fail,print,quiet}, validation-mode override, error kind, positions of "
    "0/1/2 erroring records in a 4-record file, policy injected via Config object or config.ini); run on the real CsvPath "
    "with a first-position push marker; compared with models/refpolicy.py: escaping exception, error records and their "
    "line numbers, is_valid, evaluated records (stop), returned lines, printer lines; non-trivial = at least one error "
    "was raised by the data; state = (effective flags, kind, handled errors so far, record index)"
)
BOUNDS = {
    "quick": "63 policies x 11 overrides x 8 error kinds x (no fault, 4 single positions, 6 pairs) via Config object; all 40 pairs of override tokens x 7 policies over {collect,fail,stop} x 8 kinds x 4 positions; the 63 policies x "
    "5 kinds x 4 single positions again via config.ini; 63 policies x 8 kinds x {no override, match, no-match} assigned to path.config after construction under another config.ini",
    "thorough": "as quick plus all 2-flag override combinations over different flags x 63 policies, all 3-flag combinations x 7 policies, 5-record files via config.ini and 7-record files (1,2 faults) for every policy",
}
ASSUMPTIONS = [
    "error kinds: argument-type mismatch add(#2,1) on 'x'; function rule substring(#0,int(#1)) with -1; Python exception mod(#2,#1) "
    "with 0; error in a nested argument; error on the right of '->'; the erroring function standing alone as the match component; the erroring component followed by a stop() that fires mid-line",
    "number of error records per erroring line is not asserted (a nested error is reported by child and parent), only their line numbers",
]
CHUNK = 150
BUDGET = {"quick": 500, "thorough": 3400}

FLAGS = ["raise", "collect", "stop", "fail", "print", "quiet"]
OVERRIDES1 = [[]] + [[f] for f in ("raise", "no-raise", "stop", "no-stop", "fail", "no-fail", "print", "no-print", "match", "no-match")]
KINDS = {
    # name: (component, good row, bad row)
    "argtype": ('@s = add(#2, 1)', ["abc", "2", "5"], ["abc", "2", "x"]),
    "rule": ('@s = substring(#0, int(#1))', ["abc", "2", "5"], ["abc", "-1", "5"]),
    "pyexc": ('@s = mod(#2, #1)', ["abc", "2", "5"], ["abc", "0", "5"]),
    "nested": ('@s = not(above(add(#2, 1), 2))', ["abc", "2", "5"], ["abc", "2", "x"]),
    "right": ('yes() -> @s = add(#2, 1)', ["abc", "2", "5"], ["abc", "2", "x"]),
    "bare": ('add(#2, 1)', ["abc", "2", "5"], ["abc", "2", "x"]),  # the erroring function is itself the match component (evaluated through matches())
    # the erroring component is followed by a stop() that fires in the middle of record 1 (and by one more component): the error of that
    # line must still be handled (docs/functions/stop.md: components before a stop() take effect). Equivalent to a 2-record file whose
    # record 1 is not returned.
    # the erroring component's tree holds an already evaluated EMPTY value (a whitespace-only cell read by a sibling argument)
    "emptysib": ('@s = add(#2, length(#0))', ["abc", "2", "5"], ["   ", "2", "x"]),
    "midstop": ('@s = add(#2, 1) stop(#3 == "1") yes()', ["abc", "2", "5"], ["abc", "2", "x"]),
}


def _policies():
    for m in range(1, 64):
        yield [f for i, f in enumerate(FLAGS) if m >> i & 1]


def _positions(n, maxfaults):
    yield []
    for i in range(n):
        yield [i]
    if maxfaults >= 2:
        for a, b in itertools.combinations(range(n), 2):
            yield [a, b]


def cases(tier, seed):
    n = 4
    for pol in _policies():
        for ov in OVERRIDES1:
            for kind in KINDS:
                for bad in _positions(n, 2):
                    yield {"policy": pol, "override": ov, "kind": kind, "bad": bad, "n": n, "via": "obj"}
    for pol in _policies():
        for kind in KINDS:
            for bad in _positions(n, 1 if tier == "quick" else 2):
                if bad:
                    yield {"policy": pol, "override": [], "kind": kind, "bad": bad, "n": n, "via": "ini"}
    # third route: the CsvPath is constructed while config.ini names a DIFFERENT policy (raise, collect, print) and the policy under test
    # is assigned to path.config afterwards
    for pol in _policies():
        for kind in KINDS:
            for ov in ([], ["match"], ["no-match"]):
                yield {"policy": pol, "override": ov, "kind": kind, "bad": [1], "n": n, "via": "post"}
    if tier == "quick":
        # every pair of override tokens of different flags, under the 7 policies over {collect, fail, stop}
        singles = [o[0] for o in OVERRIDES1[1:]]
        for a, b in itertools.combinations(singles, 2):
            if a.replace("no-", "") == b.replace("no-", ""):
                continue
            for m in range(1, 8):
                pol = [f for i, f in enumerate(("collect", "fail", "stop")) if m >> i & 1]
                for kind in KINDS:
                    for bad in _positions(n, 1):
                        if bad:
                            yield {"policy": pol, "override": [a, b], "kind": kind, "bad": bad, "n": n, "via": "obj"}
    if tier == "thorough":
        singles = [o[0] for o in OVERRIDES1[1:]]
        for a, b in itertools.combinations(singles, 2):
            if a.replace("no-", "") == b.replace("no-", ""):
                continue
            for pol in _policies():
                for kind in KINDS:
                    for bad in _positions(4, 2):
                        if bad:
                            yield {"policy": pol, "override": [a, b], "kind": kind, "bad": bad, "n": 4, "via": "obj"}
        for pol in _policies():
            for kind in KINDS:
                for bad in _positions(5, 2):
                    if bad:
                        yield {"policy": pol, "override": [], "kind": kind, "bad": bad, "n": 5, "via": "ini"}
        # every triple of override tokens over three different flags, under the 7 policies over {collect, fail, stop}
        for t in itertools.combinations(singles, 3):
            if len({x.replace("no-", "") for x in t}) < 3:
                continue
            for m in range(1, 8):
                pol = [f for i, f in enumerate(("collect", "fail", "stop")) if m >> i & 1]
                for kind in KINDS:
                    for bad in _positions(4, 2):
                        if bad:
                            yield {"policy": pol, "override": list(t), "kind": kind, "bad": bad, "n": 4, "via": "obj"}
        # longer files: 7 records, one or two faults, every policy
        for pol in _policies():
            for kind in KINDS:
                for bad in _positions(7, 2):
                    if bad:
                        yield {"policy": pol, "override": [], "kind": kind, "bad": bad, "n": 7, "via": "obj"}


def sample(case):
    return case


_LAST_INI = [None]


def run_case(case):
    from mcx import run, sandbox

    pol, ov, kind, bad, n = case["policy"], case["override"], case["kind"], case["bad"], case["n"]
    comp, good, badrow = KINDS[kind]
    rows = [list(badrow if i in bad else good) + [str(i)] for i in range(n)]
    path = sandbox.write_csv(rows)
    comment = f"~ validation-mode: {', '.join(ov)} ~ " if ov else ""
    text = f'{comment}${path}[*][ push("ln", line_number()) {comment and ""}{comp} ]'
    if case["via"] == "post":
        sandbox.write_config(csvpath_policy=["raise", "collect", "print"])
        o = run.run_csvpath(text, policy=None, post_policy=pol)
        sandbox.write_config()
    elif case["via"] == "ini":
        sandbox.write_config(csvpath_policy=pol)
        o = run.run_csvpath(text, policy=None)
        sandbox.write_config()
    else:
        o = run.run_csvpath(text, policy=pol)
    if kind == "midstop":
        exp = refpolicy.outcome(pol, ov, [b for b in bad if b <= 1], 2)
        exp["returned"] = [x for x in (exp["returned"] or []) if x != 1] if exp["returned"] is not None else None
    else:
        exp = refpolicy.outcome(pol, ov, bad, n)
    cstr = f"policy={','.join(pol)} override={','.join(ov) or '-'} kind={kind} bad={bad} n={n} via={case['via']}"
    viol = []

    def badv(what, got, want):
        viol.append({"case": cstr, "diverge": f"{what}: got {got} expected {want}", "sig": what})

    if exp["raised"]:
        if o["exc"] is None:
            badv("exception did not reach the caller", None, "an exception")
        elif o["exc"][0] in ("AttributeError", "TypeError", "NameError", "KeyError"):
            badv("a different exception reached the caller", o["exc"], "the policy's exception")
    else:
        if o["exc"] is not None:
            badv("exception reached the caller without raise", o["exc"], None)
    if o["exc"] is None or exp["raised"]:
        if not (o["exc"] and o["exc"][0] in ("AttributeError", "TypeError", "NameError", "KeyError")):
            ln = o["vars"].get("ln") or []
            if ln != exp["evaluated"]:
                badv("evaluated records (stop)", ln, exp["evaluated"])
            got_err_lines = sorted(set(e[0] for e in o["errors"]))
            if got_err_lines != exp["error_lines"]:
                badv("collected error line numbers", got_err_lines, exp["error_lines"])
            if o["is_valid"] != exp["is_valid"]:
                badv("is_valid", o["is_valid"], exp["is_valid"])
            np_ = len(o["printouts"] or [])
            if exp["printed"] and np_ < len(exp["handled"]):
                badv("error not sent to the printers", np_, f">={len(exp['handled'])}")
            if not exp["printed"] and np_ != 0:
                badv("printed without print", o["printouts"], [])
            if not exp["raised"]:
                got = [int(l[-1]) for l in o["lines"]]
                if got != exp["returned"]:
                    badv("returned lines", got, exp["returned"])
    eff = exp["eff"]
    effk = tuple(sorted(k for k, v in eff.items() if v))
    states = [run.h64((effk, kind, len([b for b in exp["handled"] if b < i]), i)) for i in exp["evaluated"]]
    return {
        "viol": viol,
        "states": states,
        "transitions": len(o["vars"].get("ln") or []),
        "nontrivial": bool(exp["handled"]),
        "outcome": (o["exc"] and o["exc"][0], tuple(o["vars"].get("ln") or []), tuple(sorted(set(e[0] for e in o["errors"]))), o["is_valid"], len(o["printouts"] or []) > 0),
        "fingerprint": run.h64({k: v for k, v in o.items() if k != "stdout"}),
    }
