"""C03 - variables and run counters end up with the values the csvpath assigns."""
import itertools

from models import refinterp, refscan

ID = "C03"
RULE = (
    "case = (ordered pair (thorough: triple) of writer components from a 31-component alphabet - assignments with and without tracking "
    "keys, from headers, other variables and arithmetic on the previous value, tally/sum/subtotal/counter/first/count(value) with name "
    "qualifiers and onmatch, push/push.distinct/pop/peek/peek_size, count()/count_lines()/count_scans()/line_number() - with a filter "
    "component in no/first/last position; file of <=3 records; scan window); the real run is compared with models/refinterp.py on the "
    "final variables, scan_count, match_count, returned lines and, per evaluated line, a last-position print of the first writer's variable, "
    "$.csvpath.count_scans and $.csvpath.line_number; cases in which the documentation leaves a step open are not asserted; non-trivial = "
    ">=2 variables written and at least one line rejected; state = (variables, counters, record)"
)
BOUNDS = {
    "quick": "all ordered writer pairs x {no filter, filter first, filter last} x 22 files x window *; pairs x 6 files x windows {1*, 1-2}; filtered pairs x 3 files under return-mode no-matches",
    "thorough": "pairs x (no filter, 3 filters first, 2 filters last, 1 filter between) x all 259 files of <=3 records x 3 windows; triples over a 12-writer subset x 20 files",
}
CHUNK = 60
BUDGET = {"quick": 700, "thorough": 3400}
ASSUMPTIONS = [
    "only the NAMED bookkeeping variables are compared (unnamed ones use hash ids); every()'s vote (every N-th sighting of a value matches) is asserted through "
    "match_count, the returned lines and the onmatch-gated writers next to it, its own variables are not (docs/functions/every.md contradicts its own example and the pinned test about their layout)",
    "not asserted: aggregates of absent/empty values; the value of bare count() read on a line that ends up not matching",
]


def fn(name, quals=(), args=()):
    return ["f", name, list(quals), list(args)]


def T(v):
    return ["t", v]


H0, H1 = ["h", 0], ["h", 1]
WRITERS = [
    ["=", ["v", "x"], [], H0],
    ["=", ["v", "tr", "k"], [], H1],
    ["=", ["v", "y"], [], ["v", "x"]],
    ["=", ["v", "n"], [], fn("add", [], [["v", "n"], T(1)])],
    fn("tally", [], [H0]),
    fn("tally", ["tt"], [H0, H1]),
    fn("tally", ["tm", "onmatch"], [H0]),
    fn("tally", ["tp"], [H1, H0]),
    fn("sum", [], [H1]),
    fn("sum", ["s2", "onmatch"], [H1]),
    fn("subtotal", ["st"], [H0, H1]),
    fn("counter", ["c1"], []),
    fn("counter", ["c5"], [T(5)]),
    fn("counter", ["c0"], [T(0)]),
    fn("first", ["f1"], [H0]),
    fn("first", ["f2"], [H0, H1]),
    fn("count", ["cn"], [H0]),
    fn("count", ["cb"], [["==", H0, T("1")]]),
    ["=", ["v", "c"], [], fn("count")],
    ["=", ["v", "m"], ["onmatch"], fn("count")],
    fn("push", [], [T("s"), H0]),
    fn("push", ["distinct"], [T("d"), H0]),
    ["=", ["v", "p"], [], fn("pop", [], [T("s")])],
    ["=", ["v", "q"], [], fn("peek", [], [T("s"), T(0)])],
    ["=", ["v", "z"], [], fn("peek_size", [], [T("s")])],
    ["=", ["v", "cl"], [], fn("count_lines")],
    ["=", ["v", "cs"], [], fn("count_scans")],
    ["=", ["v", "ln"], [], fn("line_number")],
    ["=", ["v", "x"], ["onmatch"], H1],
    ["->", ["==", H0, T("1")], ["=", ["v", "w"], [], H1]],
    ["->", ["==", H0, T("1")], ["=", ["v", "p2"], [], fn("pop", [], [T("s")])]],
    ["->", ["==", H1, T("9")], ["=", ["v", "p3"], [], fn("pop", [], [T("s")])]],
    ["=", ["v", "seen"], [], fn("sum", ["tot", "onmatch"], [H1])],
    ["=", ["v", "seen2"], [], fn("sum", ["tot2"], [H1])],
    ["=", ["v", "lt", "a"], ["latch"], H0],
    ["=", ["v", "lt", "b"], ["latch"], H1],
    ["=", ["v", "mx", "k"], ["increase"], H1],
    ["=", ["v", "zz"], [], fn("subtract", [], [H1, H1])],
    ["=", ["v", "ff"], [], fn("no")],
    ["=", ["v", "rf"], [], ["v", "cb", "False"]],
    ["=", ["v", "rt"], [], ["v", "cb", "True"]],
    fn("every", ["ev"], [H0, T(2)]),
    fn("every", ["eb"], [["==", H0, T("1")], T(2)]),
]
EVERY_VARS = {"ev", "eb", "ev_every", "eb_every"}  # layout not asserted: docs/functions/every.md and its example disagree
def written_var(w):
    """name of the (named) variable a writer component maintains, or None."""
    if w[0] == "=":
        if w[3][0] == "f" and "onmatch" in w[3][2]:
            return None  # the value of an onmatch function is only settled once the rest of the line has voted: not read mid-line
        return w[1][1]
    if w[0] == "->":
        return written_var(w[2])
    if w[0] == "f":
        name, quals, args = w[1], w[2], w[3]
        q = [x for x in quals if x not in ("onmatch", "distinct", "notnone")]
        if name == "push":
            return args[0][1]
        if name == "tally":
            base = q[0] if q else "tally"
            return f"{base}_{args[0][1]}"
        if name in ("sum", "subtotal", "first"):
            return q[0] if q else name
        if name in ("counter", "count"):
            return q[0] if q else None
    return None


XON = next(i for i, w in enumerate(WRITERS) if w[0] == "=" and w[1][1] == "x" and "onmatch" in w[2])
FILTERS = [["==", H0, T("1")], fn("no"), ["==", H1, T("2")]]
PRINT = fn("print", [], [T("$.csvpath.count_scans $.csvpath.line_number ")])
ROWS = {"p": ["1", "2"], "q": ["2", "1"], "r": ["10", "9"], "e": ["", "x"], "s": ["abc"], "b": None, "t": ["1", "9"], "v": ["1|", "2"]}  # v: a value that itself ends in the separator tally() joins with
FILES_Q = ["b", "bpb", "pv", "vqv", "p", "pq", "qp", "pp", "pqr", "rqp", "ppq", "pqp", "pbq", "prp", "qrq", "pqb", "ppp", "bpq", "qqp", "qrp", "pqt", "qpt"]
FILES_W = ["pqr", "rqp", "ppq", "pbq", "pqpq", "qprp"]


def all_files(nmax):
    for n in range(0, nmax + 1):
        for pat in itertools.product("pqresb", repeat=n):
            yield "".join(pat)


def programs(tier):
    pairs = list(itertools.permutations(range(len(WRITERS)), 2))
    for a, b in pairs:
        if XON in (a, b) and (0 in (a, b) or 2 in (a, b)):
            continue  # a second writer/reader of @x next to '@x.onmatch = ...': look-ahead order is documented as unreliable
        base = [WRITERS[a], WRITERS[b]]
        yield base
        fl = FILTERS[:1] if tier == "quick" else FILTERS
        for fi, f in enumerate(fl):
            yield [f] + base
            if fi < 2 or tier == "quick":
                yield base + [f]
            if tier == "thorough" and fi == 0:
                yield [base[0], f, base[1]]


def cases(tier, seed):
    files = FILES_Q if tier == "quick" else list(all_files(3))
    for comps in programs(tier):
        for f in files:
            yield {"comps": comps, "file": f, "scan": [["all"]]}
    # return-mode: no-matches - the counters and variables are those of the default mode, the returned lines are the complement
    for comps in programs("quick"):
        if len(comps) == 3:
            for f in ("pq", "pqp", "bqpq"):
                yield {"comps": comps, "file": f, "scan": [["all"]], "rm": True}
    if tier == "quick":
        pairs = list(itertools.permutations(range(len(WRITERS)), 2))
        for a, b in pairs:
            if XON in (a, b) and (0 in (a, b) or 2 in (a, b)):
                continue
            for f in FILES_W:
                for w in ([["from", 1]], [["range", 1, 2]]):
                    yield {"comps": [WRITERS[a], WRITERS[b], FILTERS[0]], "file": f, "scan": w}
    else:
        for comps in programs("quick"):
            for f in FILES_W + ["pqrs", "sepq"]:
                for w in ([["from", 1]], [["range", 1, 2]], [["line", 0], ["line", 2]]):
                    yield {"comps": comps, "file": f, "scan": w}
        sub = [WRITERS[i] for i in (0, 3, 5, 7, 9, 10, 13, 16, 18, 19, 21, XON)]
        for t in itertools.permutations(range(len(sub)), 3):
            for f in FILES_Q + FILES_W:
                yield {"comps": [sub[i] for i in t] + [FILTERS[0]], "file": f, "scan": [["all"]]}


def sample(case):
    return {"match": refinterp.render_match(case["comps"] + [PRINT]), "file": case["file"], "scan": refscan.render(case["scan"])}


def norm(v):
    """tuple/list, int/float distinctions are JSON-irrelevant."""
    if isinstance(v, dict):
        # None-valued and empty-stack variables are not distinguished from unset ones (pop/peek of an unset stack: docs are silent)
        out = {str(k): norm(x) for k, x in v.items() if x is not None and x != [] and x != ()}
        return {k: x for k, x in out.items() if x != {}}  # reading @v.key of an unset v leaves an empty dict / a None entry behind
    if isinstance(v, (list, tuple)):
        return [norm(x) for x in v]
    if isinstance(v, bool):
        return v
    if isinstance(v, (int, float)):
        return float(v)
    return v


def run_case(case):
    from mcx import run, sandbox

    rows = []
    for i, ch in enumerate(case["file"]):
        r = ROWS[ch]
        rows.append([] if r is None else list(r) + ["#" + str(i)])
    wv = None
    for w in case["comps"]:
        wv = written_var(w)
        if wv:
            break
    pr = PRINT if not wv else fn("print", [], [T(f"$.variables.{wv} $.csvpath.count_scans $.csvpath.line_number ")])
    comps = case["comps"] + [pr]
    n = len(rows)
    offered = set(refscan.denote(case["scan"], n))
    scan_last = None if case["scan"][0][0] in ("all", "from") else max(refscan.denote(case["scan"], 10**6))
    na = {"viol": [], "states": [], "transitions": 0, "nontrivial": False, "outcome": "na", "fingerprint": "na", "extra": {"not_asserted_cases": 1}}
    if scan_last is not None and scan_last < n and len(rows[scan_last]) == 0:
        return na
    it = refinterp.Interp(comps, True)
    it.print_hook = True
    try:
        ret = it.run(rows, offered, scan_last)
    except refinterp.Unmodelled as e:
        return {"viol": [{"case": refinterp.render_match(comps), "diverge": f"HARNESS-ERROR Unmodelled {e}", "sig": "unmodelled"}], "states": [], "transitions": 0, "nontrivial": False, "outcome": "um", "fingerprint": "um"}
    if it.unknown_lines:
        return na
    path = sandbox.write_csv(rows)
    text = f"${path}[{refscan.render(case['scan'])}]{refinterp.render_match(comps)}"
    if case.get("rm"):
        text = "~ return-mode: no-matches ~ " + text
        ret = [t["i"] for t in it.trace if t.get("i") is not None and t["i"] not in set(ret)]
    o = run.run_csvpath(text)
    cstr = f"{'return-mode=no-matches ' if case.get('rm') else ''}scan=[{refscan.render(case['scan'])}] file={case['file']} match={refinterp.render_match(comps)}"
    viol = []
    names = _names(case["comps"])

    def bad(what, got, want):
        viol.append({"case": cstr, "diverge": f"{what}: got {got} expected {want}", "sig": f"{what} [{names}]"})

    if o["exc"]:
        bad("exception", o["exc"], None)
    else:
        gv, ev = norm(o["vars"]), norm(it.vars)
        gv = {k: v for k, v in gv.items() if k not in EVERY_VARS}
        if gv != ev:
            keys = sorted(k for k in set(gv) | set(ev) if gv.get(k) != ev.get(k))
            bad(f"final variables {keys}", {k: gv.get(k) for k in keys}, {k: ev.get(k) for k in keys})
        if o["scan_count"] != it.scan_count:
            bad("scan_count", o["scan_count"], it.scan_count)
        if o["match_count"] != it.match_count:
            bad("match_count", o["match_count"], it.match_count)
        got = [l[-1] for l in o["lines"]]
        want = [rows[i][-1] for i in ret]
        if got != want:
            bad("returned lines", got, want)
        gp, ep = list(o["printouts"] or []), list(it.prints)
        if len(gp) != len(ep):
            bad("per-line print: number of entries", gp, ep)
        else:
            for g, e in zip(gp, ep):
                if e.startswith("<UNSET>"):
                    # a reference to a variable that does not exist yet prints an unspecified text: compare the counters only
                    if g.split(" ")[-3:] != e.split(" ")[-3:]:
                        bad("per-line count_scans/line_number", gp, ep)
                        break
                elif g != e:
                    bad("per-line print of the variable / count_scans / line_number", gp, ep)
                    break
    nonblank = sum(1 for r in rows if r)
    states = [run.h64((run.jsonable(it.vars), it.scan_count, it.match_count, t.get("i"))) for t in it.trace]
    return {
        "viol": viol,
        "states": states,
        "transitions": len(it.trace),
        "nontrivial": len(it.vars) >= 2 and len(ret) < nonblank,
        "outcome": run.h64(run.jsonable(it.vars)),
        "fingerprint": run.h64((cstr, o["vars"], o["lines"], o["errors"])),
    }


def _names(comps):
    out = []
    for c in comps:
        if c[0] == "f":
            out.append(c[1] + ("." + ".".join(c[2]) if c[2] else ""))
        elif c[0] == "=":
            r = c[3]
            out.append("@" + c[1][1] + ("." + ".".join(c[2]) if c[2] else "") + "=" + (r[1] if r[0] == "f" else r[0]))
        elif c[0] == "->":
            out.append("->")
        else:
            out.append(c[0])
    return " ".join(out)
