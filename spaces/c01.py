"""C01 - returned lines are exactly the scanned lines that satisfy the match part."""
import itertools

from models import refinterp, refscan

ID = "C01"
RULE = (
    "case = (generated csvpath over the modelled function set, file, logic mode, scan window); the real CsvPath.collect() is compared "
    "with models/refinterp.py (written from docs/): returned lines, each once, in file order. Blocks: P1 every modelled function x "
    "argument shapes as a single component (and under not()) on a file whose data records are ALL pairs over a 13-cell alphabet plus "
    "ragged rows and blank records; P2 all ordered pairs (thorough: triples) from a 24-component interaction alphabet (tests, "
    "assignments feeding later tests, when/do, onmatch/nocontrib forms, count-dependent tests) in both logic modes over all files of "
    "<=3 records from a 6-row alphabet; P3 boolean nests to depth 3 over six atoms; P4 the P2 pairs under 6 scan windows; P5 orderings of 4-6 independent pure components in both modes. Lines on "
    "which the documentation is silent (string functions of absent values, mixed-type ordering) are not asserted; non-trivial = "
    "the program both accepts and rejects at least one line; state = (variables, counters, record)"
)
BOUNDS = {
    "quick": "P1 ~700 programs x 1 file of 190 records; P2 552 ordered pairs x 2 modes x 40 files; P3 nests depth<=3; P4 pairs x 6 windows x 8 files",
    "thorough": "P2 ordered triples over a 14-component subset x 2 modes x all 259 files of <=3 records; nests depth 4; P4 x all windows",
}
CHUNK = 40
BUDGET = {"quick": 700, "thorough": 3400}
ASSUMPTIONS = [
    "error policy collect: a component whose evaluation raises does not match",
    "not asserted (generator avoids or the model marks the line unknown): float literals in ==, string functions of absent/empty values, "
    "ordering numbers against non-numeric text or mixed-case text, beyond()/outside() exactly on a bound, in() across types, value "
    "producers used bare as a component, dates, regex",
]

K = ["", "0", "1", "2", "9", "10", "-3", "1.5", "abc", "Abc", " x ", "true", "false"]


def fn(name, quals=(), args=()):
    return ["f", name, list(quals), list(args)]


def T(v):
    return ["t", v]


A, B, ABSENT, V = ["h", "a"], ["h", "b"], ["h", 9], ["v", "v"]
A1 = ["h", 1]


def f1_rows():
    rows = [["i", "a", "b"]]
    i = 1
    for x in K:
        for y in K:
            rows.append([str(i), x, y])
            i += 1
    for x in K:
        rows.append([str(i), x])
        i += 1
    rows.append([str(i)])
    i += 1
    rows.append([])
    i += 1
    for x in ("1", "abc"):
        rows.append([str(i), x, "2", "extra"])
        i += 1
    return rows


def p1_programs():
    out = []
    vals2 = [B, T(0), T(1), T(2), T(10), T("abc"), T("1")]
    for f in ("above", "gt", "after", "below", "lt", "before"):
        for x in (A, B, ABSENT, A1):
            for y in vals2:
                out.append(fn(f, [], [x, y]))
        out.append(fn(f, [], [T(5), A]))
    for f in ("between", "inside", "from_to", "range", "beyond", "outside"):
        for lo, hi in ((T(1), T(9)), (T(9), T(1)), (T(0), T(10)), (T("a"), T("b")), (B, T(10)), (T(2), T(2)),
                       (T("2"), T("10")), (T("10"), T("2")), (B, T("10")), (T("-3"), B)):  # all three operands strings: numbers still order as numbers
            out.append(fn(f, [], [A, lo, hi]))
    out += [fn("in", [], [A, T("a|b|1")]), fn("in", [], [A, T("abc|10"), B]), fn("in", [], [A, B]), fn("in", [], [A, T("1"), T("2|9")])]
    for f in ("empty", "exists", "not"):
        for x in (A, B, ABSENT, V, A1):
            out.append(fn(f, [], [x]))
    out += [A, B, ABSENT, V, ["h", "a", ["asbool"]], fn("yes"), fn("no"), fn("not", [], [fn("empty", [], [A])])]
    atoms = [A, B, ["==", A, T("1")], fn("above", [], [A, T(1)]), fn("empty", [], [B])]
    for x, y in itertools.permutations(atoms, 2):
        out.append(fn("and", [], [x, y]))
        out.append(fn("or", [], [x, y]))
    for t in itertools.permutations(atoms, 3):
        out.append(fn("and", [], list(t)))
        out.append(fn("or", [], list(t)))
    for t in itertools.permutations(atoms, 4):
        if atoms.index(t[0]) < atoms.index(t[1]):
            out.append(fn("and", [], list(t)))
            out.append(fn("or", [], list(t)))
    out.append(fn("and", [], atoms))
    out.append(fn("or", [], atoms))
    lefts = [A, fn("lower", [], [A]), fn("upper", [], [A]), fn("strip", [], [A]), fn("length", [], [A]), fn("substring", [], [A, T(2)]),
             fn("concat", [], [A, T("-"), B]), fn("add", [], [A, T(1)]), fn("subtract", [], [A, B]), fn("multiply", [], [A, T(2)]),
             fn("divide", [], [A, T(2)]), fn("divide", [], [A, B]), fn("mod", [], [A, T(2)]), fn("int", [], [A]), fn("float", [], [A]),
             fn("count_lines"), fn("line_number"), fn("count_scans"), fn("minus", [], [A]), fn("add", [], [A, B, T(1)])]
    rights = [B, T("abc"), T("1"), T(1), T(2), T(10), T("ABC"), T("x"), T(3)]
    for l in lefts:
        for r in rights:
            out.append(["==", l, r])
    for rx in ("/a.c/", "/^[0-9]+$/", "/b+/", "/(x|1)0/", "/\\./", "/^A/"):
        out.append(fn("regex", [], [T(rx), A]))
        out.append(fn("exact", [], [T(rx), A]))
    for f in ("min_length", "max_length"):
        out += [fn(f, [], [A, T(2)]), fn(f, [], [B, T(1)]), fn(f, [], [A, T(0)]), fn(f, [], [fn("concat", [], [A, B]), T(3)])]
    for x in (A, ABSENT, V):
        out += [["==", fn("length", [], [x]), T(0)], ["==", fn("length", [], [x]), T(4)], fn("above", [], [fn("length", [], [x]), T(1)]), fn("below", [], [fn("length", [], [x]), T(1)])]
    out += [fn("any"), fn("any", [], [fn("headers")]), fn("any", [], [fn("variables")]), fn("any", [], [T("abc")]), fn("any", [], [fn("headers"), T("abc")]),
            fn("any", [], [fn("headers"), T("10")]), fn("any", [], [fn("variables"), T("abc")]), fn("any", [], [fn("headers"), B])]
    out += [["==", fn("count_headers"), T(3)], ["==", fn("count_headers_in_line"), T(3)], ["==", fn("count_headers_in_line"), fn("count_headers")],
            fn("above", [], [fn("count_headers_in_line"), fn("count_headers")]), fn("below", [], [fn("count_headers_in_line"), T(3)])]
    out += [fn("all"), fn("missing"), fn("all", [], [fn("headers")]), fn("missing", [], [fn("headers")]), fn("all", [], [fn("variables")]),
            fn("not", [], [fn("all")])]
    out += [fn("all", [], [A, B]), fn("missing", [], [A, B]), fn("all", [], [A, B, ABSENT]), fn("missing", [], [B, A1])]
    out += [fn("int", [], [A]), fn("float", [], [A]), fn("int", [], [B]), fn("starts_with", [], [A, T("a")]), fn("starts_with", [], [A, B]), fn("starts_with", [], [B, T("1")])]
    out += [["->", ["==", A, T("1")], ["=", ["v", "w"], [], B]], ["=", ["v", "w"], [], A], ["=", ["v", "w"], ["notnone"], ABSENT]]
    res = []
    for c in out:
        res.append(c)
        if c[0] in ("f", "==", "h", "v") and not (c[0] == "f" and c[1] == "not"):
            res.append(fn("not", [], [c]))
    return res


INTERACT = [
    ["==", A, T("1")],
    fn("above", [], [A, T(1)]),
    fn("empty", [], [B]),
    B,
    fn("not", [], [A]),
    fn("in", [], [A, T("1|2|abc")]),
    ["=", ["v", "v"], [], A],
    fn("above", [], [V, T(1)]),
    ["==", V, T("1")],
    V,
    ["=", ["v", "n"], [], fn("add", [], [["v", "n"], T(1)])],
    ["==", ["v", "n"], T(2)],
    ["=", ["v", "c"], [], fn("count")],
    ["->", ["==", A, T("1")], ["=", ["v", "w"], [], B]],
    ["v", "w"],
    ["->", fn("above", [], [A, T(1)]), ["=", ["v", "k"], [], fn("count_lines")]],
    ["=", ["v", "m"], ["onmatch"], fn("count")],
    ["=", ["v", "x"], ["onmatch"], B],
    ["->", fn("empty", ["nocontrib"], [B]), ["=", ["v", "e"], [], A]],
    ["==", fn("count"), T(2)],
    ["==", fn("count_lines"), T(3)],
    ["==", fn("count_scans"), T(2)],
    ["==", fn("line_number"), T(1)],
    fn("yes"),
]
LASTC = ["->", fn("last"), ["=", ["v", "l"], [], A]]
ROWS = {"p": ["1", "2"], "q": ["2", "1"], "r": ["10", "9"], "e": ["", "x"], "s": ["abc"], "b": None}
WINDOWS = [[["from", 1]], [["range", 1, 2]], [["line", 0], ["line", 2]], [["range", 2, 1]], [["line", 1]], [["line", 0], ["range", 2, 3]]]


def f2_files(nmax):
    for n in range(0, nmax + 1):
        for pat in itertools.product("pqresb", repeat=n):
            yield "".join(pat)


F2_QUICK = ["", "p", "q", "e", "s", "pq", "qp", "pr", "rp", "pe", "ep", "ps", "sb", "bp", "pp", "qq", "rr", "pqr", "rqp", "ppq", "pqp", "qpp", "peq", "spq", "pbq", "bpq", "pqb", "ppp", "rer", "ses", "eps", "qrq", "sps", "prp", "pss", "bbp", "qeb", "rsb", "esp", "qsr"]


def has_onmatch(c):
    """an .onmatch assignment, or an assignment from bare count() (docs/functions/count.md: it only counts matches, i.e. implies onmatch)."""
    for n in refinterp.walk(c):
        if isinstance(n, list) and n and n[0] == "=":
            if "onmatch" in n[2]:
                return True
            if n[3][0] == "f" and n[3][1] == "count" and not n[3][3]:
                return True
    return False


def cases(tier, seed):
    for c in p1_programs():
        yield {"blk": "P1", "comps": [c], "file": "F1", "and": True, "scan": [["all"]]}
    files = F2_QUICK if tier == "quick" else list(f2_files(3))
    for a, b in itertools.permutations(range(len(INTERACT)), 2):
        comps = [INTERACT[a], INTERACT[b]]
        for mode in (True, False):
            if not mode and any(has_onmatch(c) for c in comps):
                continue
            for f in files:
                yield {"blk": "P2", "comps": comps, "file": f, "and": mode, "scan": [["all"]], "hdr": (len(f) + a) % 2 == 0}
    for a in range(0, len(INTERACT), 3):
        for f in files[:12]:
            yield {"blk": "P2", "comps": [INTERACT[a], LASTC], "file": f, "and": True, "scan": [["all"]], "hdr": False}
    if tier == "thorough":
        sub = INTERACT[:8] + INTERACT[12:14] + INTERACT[16:20]
        for t in itertools.permutations(range(len(sub)), 3):
            comps = [sub[i] for i in t]
            for mode in (True, False):
                if not mode and any(has_onmatch(c) for c in comps):
                    continue
                for f in files[::4]:
                    yield {"blk": "P2", "comps": comps, "file": f, "and": mode, "scan": [["all"]], "hdr": False}
    # P3 nests
    atoms = [A, ["==", A, T("1")], fn("above", [], [B, T(1)]), fn("empty", [], [B]), fn("in", [], [A, T("abc|2")]), fn("yes")]
    level = list(atoms)
    for d in range(1, (3 if tier == "quick" else 4) + 1):
        nxt = []
        for x in level[:8]:
            nxt.append(fn("not", [], [x]))
        for x, y in itertools.product(level[:5], atoms[:4]):
            nxt.append(fn("and", [], [x, y]))
            nxt.append(fn("or", [], [y, x]))
        for c in nxt:
            yield {"blk": "P3", "comps": [c], "file": "F1", "and": True, "scan": [["all"]]}
        level = nxt
    # P5 four to six independent components (every ordering of distinct per-record-pure atoms), both modes, on the all-pairs file
    pure = [["==", A, T("1")], fn("above", [], [B, T(1)]), fn("empty", [], [B]), fn("in", [], [A, T("abc|2|10")]), fn("not", [], [fn("exists", [], [A])]), fn("below", [], [A, T(9)])]
    for k in (4, 5, 6):
        perms = list(itertools.permutations(range(len(pure)), k))
        step = 1 if tier == "thorough" else (6 if k < 6 else 12)
        for t in perms[::step]:
            for mode in (True, False):
                yield {"blk": "P5", "comps": [pure[i] for i in t], "file": "F1", "and": mode, "scan": [["all"]]}
    # P4 scan windows
    wins = WINDOWS
    pairs = list(itertools.permutations(range(len(INTERACT)), 2))
    step = 1 if tier == "thorough" else 3
    for a, b in pairs[::step]:
        comps = [INTERACT[a], INTERACT[b]]
        for w in wins:
            for f in ("pqr", "rqp", "pbq", "pqpq", "sepq", "qqpe", "ppbr", "bqrp"):
                yield {"blk": "P4", "comps": comps, "file": f, "and": True, "scan": w, "hdr": False}


def sample(case):
    return {"block": case["blk"], "match": refinterp.render_match(case["comps"]), "file": case["file"], "logic": "AND" if case["and"] else "OR", "scan": refscan.render(case["scan"])}


_F1 = {}


def build_rows(case):
    if case["file"] == "F1":
        return f1_rows()
    rows = []
    if case.get("hdr"):
        rows.append(["a", "b", "i"])
    for ch in case["file"]:
        r = ROWS[ch]
        if r is None:
            rows.append([])
        else:
            rows.append(list(r) + [None])
    # index cell last for F2 files; header names a,b only meaningful with a header row -> use indexes via names mapping below
    out = []
    for i, r in enumerate(rows):
        if r and r[-1] is None:
            r = r[:-1] + ["#" + str(i)]
        out.append(r)
    return out


def idx_of(row, f1):
    return row[0] if f1 else row[-1]


def run_case(case):
    from mcx import run, sandbox

    f1 = case["file"] == "F1"
    rows = build_rows(case)
    comps = case["comps"]
    if not f1 and not case.get("hdr"):
        # no header row: address cells by index (#a -> #0, #b -> #1)
        comps = _reindex(comps)
    n = len(rows)
    offered = set(refscan.denote(case["scan"], n))
    scan_last = None if case["scan"][0][0] in ("all", "from") else max(refscan.denote(case["scan"], 10**6))
    if scan_last is not None and scan_last < n and len(rows[scan_last]) == 0:
        return {"viol": [], "states": [], "transitions": 0, "nontrivial": False, "outcome": "na", "fingerprint": "na", "extra": {"not_asserted_cases": 1}}
    it = refinterp.Interp(comps, case["and"])
    try:
        ret = it.run(rows, offered, scan_last)
    except refinterp.Unmodelled as e:
        return {"viol": [{"case": refinterp.render_match(comps), "diverge": f"HARNESS-ERROR Unmodelled {e}", "sig": "unmodelled"}], "states": [], "transitions": 0, "nontrivial": False, "outcome": "um", "fingerprint": "um"}
    stateful = case["blk"] in ("P2", "P4")
    if stateful and it.unknown_lines:
        return {"viol": [], "states": [], "transitions": 0, "nontrivial": False, "outcome": "na", "fingerprint": "na", "extra": {"not_asserted_cases": 1}}
    path = sandbox.write_csv(rows)
    pre = "" if case["and"] else "~ logic-mode: OR ~ "
    text = f"{pre}${path}[{refscan.render(case['scan'])}]{refinterp.render_match(comps)}"
    o = run.run_csvpath(text)
    cstr = f"{'AND' if case['and'] else 'OR'} scan=[{refscan.render(case['scan'])}] file={case['file']}{'+hdr' if case.get('hdr') else ''} match={refinterp.render_match(comps)}"
    viol = []
    if o["exc"]:
        viol.append({"case": cstr, "diverge": f"exception: {o['exc']}", "sig": f"{case['blk']} exception {_fnames(comps)}"})
    else:
        got = [idx_of(l, f1) for l in o["lines"]]
        want = [idx_of(rows[i], f1) for i in ret]
        unk = {idx_of(rows[i], f1) for i in it.unknown_lines if rows[i]}
        g2 = [x for x in got if x not in unk]
        w2 = [x for x in want if x not in unk]
        if g2 != w2 and _lt_family(comps) and _agrees_with_lte(case, comps, rows, offered, scan_last, got, unk, f1):
            viol.append({
                "case": cstr,
                "diverge": "below/lt/before accept EQUAL operands (behave as <=); with that single change the model agrees on every line",
                "sig": f"{case['blk']} lt-as-lte {_fnames(comps)}",
            })
        elif g2 != w2:
            extra = [x for x in g2 if x not in w2][:4]
            missing = [x for x in w2 if x not in g2][:4]

            def show(ix):
                for r in rows:
                    if r and idx_of(r, f1) == ix:
                        return r
            viol.append({
                "case": cstr,
                "diverge": f"returned lines: unexpectedly returned {[show(x) for x in extra]} ; missing {[show(x) for x in missing]}",
                "sig": f"{case['blk']} {_fnames(comps)} {'AND' if case['and'] else 'OR'}",
            })
        if len(got) != len(set(got)):
            viol.append({"case": cstr, "diverge": f"a line was returned more than once: {got}", "sig": "dup"})
    nonblank = sum(1 for r in rows if r)
    states = [run.h64((run.jsonable(it.vars), it.match_count, t.get("i"))) for t in it.trace[:50]]
    return {
        "viol": viol,
        "states": states,
        "transitions": len(it.trace),
        "nontrivial": 0 < len(ret) < nonblank,
        "outcome": run.h64((tuple(ret), case["blk"])),
        "fingerprint": run.h64((cstr, o["lines"], o["errors"])),
        "extra": {"unknown_lines_not_asserted": len(it.unknown_lines)},
    }


def _lt_family(comps):
    return any(n[0] == "f" and n[1] in ("below", "lt", "before") for c in comps for n in refinterp.walk(c))


def _agrees_with_lte(case, comps, rows, offered, scan_last, got, unk, f1):
    it2 = refinterp.Interp(comps, case["and"])
    it2.lt_accepts_equal = True
    try:
        ret2 = it2.run(rows, offered, scan_last)
    except Exception:  # noqa: BLE001
        return False
    unk2 = unk | {idx_of(rows[i], f1) for i in it2.unknown_lines if rows[i]}
    want2 = [idx_of(rows[i], f1) for i in ret2]
    return [x for x in got if x not in unk2] == [x for x in want2 if x not in unk2]


def _fnames(comps):
    names = []
    for c in comps:
        for n in refinterp.walk(c):
            if n[0] == "f":
                names.append(n[1])
            elif n[0] in ("==", "=", "->"):
                names.append(n[0])
    return ",".join(sorted(set(names)))


def _reindex(comps):
    import json

    s = json.dumps(comps)
    s = s.replace('["h", "a"]', '["h", 0]').replace('["h", "b"]', '["h", 1]').replace('["h", "a", ["asbool"]]', '["h", 0, ["asbool"]]')
    return json.loads(s)
