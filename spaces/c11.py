"""C11 - the named-files area is a versioned, content-addressed, immutable store."""
import os

from models import refstore

ID = "C11"
MODE = "bfs"
RULE = (
    "state = event history over {write(source file, content), add_named_file(name, source), remove(name), new CsvPaths instance}; "
    "each (state, operation) is executed on the real FileManager in a fresh sandbox by replaying the history, with "
    "models/refstore.Files stepped in lock-step; invariants after EVERY operation for every name: get_named_file exists, its "
    "bytes are the model's current content, its file name is sha256+ext, manifest length and fingerprints equal the model's, every "
    "blob ever stored still has its bytes, named_file_names equals the model's names, an unknown name gives None, a fresh "
    "instance answers the same; canonical state = model + masked directory tree + source contents + what the live instance has added/removed per name since it was created (an implementation may cache per instance); non-trivial = state holds at "
    "least one name with >=2 manifest entries"
)
BOUNDS = {
    "quick": "2 names x 2 source files x 4 contents (two of the same length), 15 operations, all histories to depth 5 (BFS with canonical-state de-duplication); plus all histories to depth 4 over 7 operations for a source file named <sha256 of its bytes>.csv and for a source file without extension",
    "thorough": "same alphabet, depth 7; the two special source files to depth 5",
}
DEPTH = {"quick": 5, "thorough": 7}
BUDGET = {"quick": 500, "thorough": 3400}
CHUNK = 25
ASSUMPTIONS = [
    "two histories reaching the same masked tree + same model state + same per-name add/remove record of the live instance have the same "
    "futures (a first version merged on the tree and model only, i.e. assumed the managers keep no per-instance state; seed c11-2, an "
    "in-memory manifest cache that goes stale after remove, showed that this abstraction hides exactly such bugs)",
    "source files start with s1.csv=A, s2.txt=B (two different extensions), <sha256(A)>.csv=A, s4=B so that every add is enabled; remove of an unregistered name is disabled",
]

CONTENTS = {"A": "a,b\n1,2\n", "B": "a,b\n3,4\n5,6\n", "C": "x\n", "D": "a,b\n1,3\n"}  # D: the same length as A, one digit changed
SRCS = ["s1.csv", "s2.txt"]
NAMES = ["n1", "n2"]
# two more source files, explored in their own (smaller) operation alphabets: one whose base name already IS the sha256 of its
# initial bytes plus an extension (a file taken out of another content-addressed store), one without any extension
SHA_SRC = refstore.sha(CONTENTS["A"]) + ".csv"
NOEXT_SRC = "s4"
INITIAL = {"s1.csv": "A", "s2.txt": "B", SHA_SRC: "A", NOEXT_SRC: "B"}


def extra_histories(tier):
    import itertools

    hs = []
    depth = 4 if tier == "quick" else 5
    for x in (SHA_SRC, NOEXT_SRC):
        alpha = [["add", "n1", x], ["add", "n2", x], ["write", x, "B"], ["write", x, "A"], ["add", "n1", "s1.csv"], ["remove", "n1"], ["new"]]
        for n in range(1, depth + 1):
            for t in itertools.product(alpha, repeat=n):
                if not any(o[0] == "add" and o[2] == x for o in t):
                    continue
                hs.append([list(o) for o in t])
    return hs


def ops(tier):
    o = []
    for s in SRCS:
        for c in CONTENTS:
            o.append(["write", s, c])
    for n in NAMES:
        for s in SRCS:
            o.append(["add", n, s])
    for n in NAMES:
        o.append(["remove", n])
    o.append(["new"])
    return o


def sample(h):
    return h


def run_history(hist):
    from mcx import canon, run, sandbox
    from csvpath import CsvPaths

    root = sandbox.root()
    sandbox.reset_dirs("inputs", "srcs", "archive")
    srcdir = os.path.join(root, "srcs")
    src = dict(INITIAL)
    for s, c in src.items():
        with open(os.path.join(srcdir, s), "w", encoding="utf-8", newline="") as f:
            f.write(CONTENTS[c])
    model = refstore.Files()
    cp = CsvPaths()
    viol = []
    cstr = " ; ".join("(" + ",".join(o) + ")" for o in hist)
    nops = 0

    def bad(what, got, want):
        viol.append({"case": cstr, "diverge": f"{what}: got {got} expected {want}", "sig": what})

    def check(inst, tag=""):
        fm = inst.file_manager
        names = sorted(fm.named_file_names) if os.path.isdir(fm.named_files_dir) else []
        if names != sorted(model.names):
            bad(f"{tag}named_file_names", names, sorted(model.names))
        for nm in NAMES:
            if nm not in model.names:
                try:
                    p = fm.get_named_file(nm)
                except Exception as e:  # noqa: BLE001
                    p = f"EXC {type(e).__name__}"
                if p is not None:
                    bad(f"{tag}get_named_file of an unregistered name", p, None)
                continue
            srcname, h, content = model.current(nm)
            try:
                p = fm.get_named_file(nm)
            except Exception as e:  # noqa: BLE001
                bad(f"{tag}get_named_file raised", f"{type(e).__name__}: {e}", "a path")
                continue
            if p is None or not os.path.isfile(p):
                bad(f"{tag}get_named_file names a missing file", p, "existing file")
                continue
            with open(p, "rb") as f:
                b = f.read()
            if b != content.encode("utf-8"):
                bad(f"{tag}current content", b[:40], content[:40])
            ext = os.path.splitext(srcname)[1]
            if os.path.basename(p) != h + ext:
                bad(f"{tag}file name is sha256+ext", os.path.basename(p), h + ext)
            try:
                fp = fm.get_fingerprint_for_name(nm)
                if fp != h:
                    bad(f"{tag}get_fingerprint_for_name", fp, h)
            except Exception as e:  # noqa: BLE001
                bad(f"{tag}get_fingerprint_for_name raised", type(e).__name__, h)
            mpath = os.path.join(fm.named_file_home(nm), "manifest.json")
            import json

            with open(mpath, encoding="utf-8") as f:
                man = json.load(f)
            got = [(m.get("fingerprint"), os.path.basename(m.get("file_home", ""))) for m in man]
            if got != model.names[nm]["manifest"]:
                bad(f"{tag}manifest entries", got, model.names[nm]["manifest"])
            for (sn, bh), bc in model.names[nm]["blobs"].items():
                bp = os.path.join(fm.named_file_home(nm), sn, bh + os.path.splitext(sn)[1])
                if not os.path.isfile(bp):
                    bad(f"{tag}stored version missing", bp.replace(root, ""), "present")
                else:
                    with open(bp, "rb") as f:
                        if f.read() != bc.encode("utf-8"):
                            bad(f"{tag}stored version modified", bh, "original bytes")

    disabled = False
    touched = {}  # what the LIVE instance has done per name since it was created: an implementation may cache per instance
    for op in hist:
        if op[0] == "write":
            with open(os.path.join(srcdir, op[1]), "w", encoding="utf-8", newline="") as f:
                f.write(CONTENTS[op[2]])
            src[op[1]] = op[2]
        elif op[0] == "add":
            try:
                cp.file_manager.add_named_file(name=op[1], path=os.path.join(srcdir, op[2]))
            except Exception as e:  # noqa: BLE001
                bad("add_named_file raised", f"{type(e).__name__}: {e}", None)
            model.add(op[1], op[2], CONTENTS[src[op[2]]])
            touched.setdefault(op[1], set()).add("add:" + op[2] + ":" + src[op[2]])
        elif op[0] == "remove":
            if op[1] not in model.names:
                disabled = True
                break
            try:
                cp.file_manager.remove_named_file(op[1])
            except Exception as e:  # noqa: BLE001
                bad("remove_named_file raised", f"{type(e).__name__}: {e}", None)
            model.remove(op[1])
            touched.setdefault(op[1], set()).add("removed")
        elif op[0] == "new":
            cp = CsvPaths()
            touched = {}
        nops += 1
        check(cp)
    if disabled:
        return {"disabled": True, "key": None, "viol": []}
    check(CsvPaths(), "fresh instance: ")
    tree = canon.tree(os.path.join(root, "inputs"), relroot=root)
    # the manifest's absolute paths contain the sandbox root: strip via masking of path-valued keys
    inst = sorted((k, tuple(sorted(v))) for k, v in touched.items())
    key = run.h64((model.canon(), sorted(src.items()), _tree_key(root), inst))
    nontrivial = any(len(v["manifest"]) >= 2 for v in model.names.values())
    return {"key": key, "viol": viol, "transitions": nops, "nontrivial": nontrivial}


def _tree_key(root):
    """relative paths + content hashes of everything under inputs/ except manifests (compared structurally above)."""
    from mcx import canon

    base = os.path.join(root, "inputs")
    return [(p, h) for p, h in canon.raw_tree(base) if not p.endswith("manifest.json")]
