"""C14 - assignment qualifiers decide the vote and the write per the documented table."""
import itertools

from models import refassign

ID = "C14"
RULE = (
    "case = (subset of the 8 assignment qualifiers, sequence of 3 values of y, whether the rest of each line matches); "
    "run as the real csvpath  push(\"t\", @x)  @x.<quals> = #1  #0 == \"m\"  over a 3-record file (y absent = record too "
    "short); compared with models/refassign.py: returned lines (the vote), x before every line (first-position push), final "
    "x; non-trivial = the table blocked a write or produced a negative vote at least once; state = (qualifier set, "
    "current x, line index)"
)
BOUNDS = {
    "quick": "all 256 qualifier subsets x all 4^3 sequences over {absent,1,2,3} (+ the 6^3-4^3 sequences with true/false for the 64 "
    "subsets without increase/decrease) x {rest matches on all lines, on no line}",
    "thorough": "as quick x all 8 per-line patterns of rest-matches, plus reversed qualifier order, plus all 4^4 sequences of 4 values "
    "(rest matches on all / no lines)",
}
ASSUMPTIONS = [
    "AND logic mode (the statement's onmatch clause is defined for AND)",
    "values are header cells, i.e. strings; ordering of '1' < '2' < '3' is the same for strings and numbers",
    "absent y = a record too short to have the cell; an EMPTY cell is not asserted to be None (docs/assignment.md does not say so; the "
    "implementation assigns the empty string)",
]
CHUNK = 200
BUDGET = {"quick": 500, "thorough": 3400}

YS = [None, "1", "2", "3"]
YB = [None, "1", "2", "3", "true", "false"]


def cases(tier, seed):
    quals = refassign.QUALS
    rests = [[True] * 3, [False] * 3] if tier == "quick" else [list(r) for r in itertools.product([True, False], repeat=3)]
    variants = [("short", False, 3)] if tier == "quick" else [("short", False, 3), ("short", True, 3), ("short", False, 4)]
    for absent_as, rev, ln in variants:
        if ln == 4:
            rests = [[True] * 4, [False] * 4]
        for mask in range(256):
            qs = [q for i, q in enumerate(quals) if mask >> i & 1]
            if rev:
                if len(qs) < 2:
                    continue
                qs = qs[::-1]
            seqs = list(itertools.product(YS, repeat=ln))
            if ln == 3 and "increase" not in qs and "decrease" not in qs:
                seqs += [s for s in itertools.product(YB, repeat=3) if "true" in s or "false" in s]
            for ys in seqs:
                for rest in rests:
                    yield {"quals": qs, "ys": list(ys), "rest": rest, "absent": absent_as}


def sample(case):
    return case


def run_case(case):
    from mcx import run, sandbox

    qs, ys, rest, absent_as = case["quals"], case["ys"], case["rest"], case["absent"]
    rows = []
    for y, r in zip(ys, rest):
        row = ["m" if r else "n"]
        if y is not None:
            row.append(y)
        elif absent_as == "empty":
            row.append("")
        rows.append(row)
    path = sandbox.write_csv(rows)
    qual = "".join("." + q for q in qs)
    text = f'${path}[*][ push("t", @x) @x{qual} = #1 #0 == "m" ]'
    o = run.run_csvpath(text)
    # model
    cur = None
    exp_t, exp_lines = [], []
    blocked = False
    states = []
    for i, (y, r) in enumerate(zip(ys, rest)):
        exp_t.append(cur)
        states.append(run.h64((tuple(qs), cur, i)))
        vote, new = refassign.step(qs, cur, y, r)
        if vote is False or new != y:
            blocked = True
        cur = new
        if vote and r:
            exp_lines.append(rows[i])
    cstr = f"@x{qual} = y ; y={ys} rest={['m' if r else 'n' for r in rest]} absent={absent_as}"
    viol = []

    def bad(what, got, want):
        viol.append({"case": cstr, "diverge": f"{what}: got {got} expected {want}", "sig": what})

    if o["exc"]:
        bad("exception", o["exc"], None)
    else:
        if o["errors"]:
            bad("errors", o["errors"], [])
        if o["lines"] != exp_lines:
            bad("vote (returned lines)", o["lines"], exp_lines)
        if o["vars"].get("t") != exp_t:
            bad("x before each line", o["vars"].get("t"), exp_t)
        if o["vars"].get("x") != cur:
            bad("final x", o["vars"].get("x"), cur)
    return {
        "viol": viol,
        "states": states,
        "transitions": len(ys),
        "nontrivial": blocked,
        "outcome": (tuple(map(tuple, o["lines"] or [])), tuple(o["vars"].get("t") or []), o["vars"].get("x")),
        "fingerprint": run.h64(o),
    }
