"""C14 - assignment qualifiers decide the vote and the write per the documented table."""
import itertools

from models import refassign

ID = "C14"
RULE = (
    "case = (subset of the 8 assignment qualifiers, sequence of 3 values of y, whether the rest of each line matches); "
    "run as the real csvpath  push(\"t\", @x)  @x.<quals> = #1  #0 == \"m\"  over a 3-record file (y absent = record too "
    "short); compared with models/refassign.py: returned lines (the vote), x before every line (first-position push), final "
    "x; non-trivial = the table blocked a write or produced a negative vote at least once; state = (qualifier set, "
    "current x, line index)"
)
BOUNDS = {
    "quick": "all 256 qualifier subsets x all 4^3 sequences over {absent,1,2,3} (+ the 6^3-4^3 sequences with true/false for the 64 "
    "subsets without increase/decrease) x {rest matches on all lines, on no line}",
    "thorough": "as quick x all 8 per-line patterns of rest-matches, plus y given as an empty cell instead of a short record, plus "
    "reversed qualifier order",
}
ASSUMPTIONS = [
    "AND logic mode (the statement's onmatch clause is defined for AND)",
    "values are header cells, i.e. strings; ordering of '1' < '2' < '3' is the same for strings and numbers",
]
CHUNK = 200
BUDGET = {"quick": 500, "thorough": 3400}

YS = [None, "1", "2", "3"]
YB = [None, "1", "2", "3", "true", "false"]


def cases(tier, seed):
    quals = refassign.QUALS
    rests = [[True] * 3, [False] * 3] if tier == "quick" else [list(r) for r in itertools.product([True, False], repeat=3)]
    variants = [("short", False)] if tier == "quick" else [("short", False), ("empty", False), ("short", True)]
    for absent_as, rev in variants:
        for mask in range(256):
            qs = [q for i, q in enumerate(quals) if mask >> i & 1]
            if rev:
                if len(qs) < 2:
                    continue
                qs = qs[::-1]
            seqs = list(itertools.product(YS, repeat=3))
            if "increase" not in qs and "decrease" not in qs:
                seqs += [s for s in itertools.product(YB, repeat=3) if "true" in s or "false" in s]
            for ys in seqs:
                for rest in rests:
                    yield {"quals": qs, "ys": list(ys), "rest": rest, "absent": absent_as}


def sample(case):
    return case


def run_case(case):
    from mcx import run, sandbox

    qs, ys, rest, absent_as = case["quals"], case["ys"], case["rest"], case["absent"]
    rows = []
    for y, r in zip(ys, rest):
        row = ["m" if r else "n"]
        if y is not None:
            row.append(y)
        elif absent_as == "empty":
            row.append("")
        rows.append(row)
    path = sandbox.write_csv(rows)
    qual = "".join("." + q for q in qs)
    text = f'${path}[*][ push("t", @x) @x{qual} = #1 #0 == "m" ]'
    o = run.run_csvpath(text)
    # model
    cur = None
    exp_t, exp_lines = [], []
    blocked = False
    states = []
    for i, (y, r) in enumerate(zip(ys, rest)):
        exp_t.append(cur)
        states.append(run.h64((tuple(qs), cur, i)))
        vote, new = refassign.step(qs, cur, y, r)
        if vote is False or new != y:
            blocked = True
        cur = new
        if vote and r:
            exp_lines.append(rows[i])
    cstr = f"@x{qual} = y ; y={ys} rest={['m' if r else 'n' for r in rest]} absent={absent_as}"
    viol = []

    def bad(what, got, want):
        viol.append({"case": cstr, "diverge": f"{what}: got {got} expected {want}", "sig": what})

    if o["exc"]:
        bad("exception", o["exc"], None)
    else:
        if o["errors"]:
            bad("errors", o["errors"], [])
        if o["lines"] != exp_lines:
            bad("vote (returned lines)", o["lines"], exp_lines)
        if o["vars"].get("t") != exp_t:
            bad("x before each line", o["vars"].get("t"), exp_t)
        if o["vars"].get("x") != cur:
            bad("final x", o["vars"].get("x"), cur)
    return {
        "viol": viol,
        "states": states,
        "transitions": 3,
        "nontrivial": blocked,
        "outcome": (tuple(map(tuple, o["lines"] or [])), tuple(o["vars"].get("t") or []), o["vars"].get("x")),
        "fingerprint": run.h64(o),
    }
