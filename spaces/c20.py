"""C20 - data and values flow between csvpaths as declared."""
import itertools
import os

ID = "C20"
RULE = (
    "three families on the real CsvPaths: (chain) every chain of 2..3 (thorough 4) filter csvpaths from a 6-filter alphabet with "
    "source-mode: preceding on every suffix x files x {collect_paths, next_paths(collect)}: member i's collected lines must equal a "
    "standalone CsvPath running p_i on a file holding exactly member i-1's lines (composition model), and its manifest's "
    "actual_data_file must name the predecessor's data.csv (members before the suffix: the registered origin file); (refs) after "
    "every history of 1..3 runs of a two-member group on three different files x 3 run methods, a probe csvpath assigns from "
    "$g.variables.v, .v.key, $h.headers.name and $h3.headers.name.<member> (three-member group one of whose members collected nothing) and the values must be those the most recent run left (later member wins a shared "
    "name); (replay) a results reference used as a file name replays exactly the referenced member's data.csv of the most recent "
    "run, also when the replayed file feeds a chain with source-mode preceding; non-trivial = a stage actually narrowed its input / the history has >=2 runs; state = (stage, input lines) / (history)"
)
BOUNDS = {
    "quick": "chains of 2..3 over 6 filters (all suffixes) x 6 files x 2 methods; reference histories of length 1..3 over 3 files x 3 methods; replay after 1..2 runs",
    "thorough": "chains of 2..4 x 10 files x 2 methods; histories of length 1..4",
}
CHUNK = 25
BUDGET = {"quick": 600, "thorough": 3400}
ASSUMPTIONS = [
    "a predecessor that collected nothing: how the run proceeds is not asserted (the docs do not say), only that the successor collects no line",
    "filters address cells by index so that a stage may drop the header record",
    "docs/variables.md: a later csvpath's variable 'effectively overwrite[s] any same-name variable that is run before'",
]

FILTERS = [
    ("*", "yes()"),
    ("*", '#0 == "k"'),
    ("*", '#1 == "1"'),
    ("*", 'not(#0 == "k")'),
    ("1*", "yes()"),
    ("0-1", "yes()"),
]
FILES = [
    [["k", "1", "0"], ["n", "1", "1"], ["k", "2", "2"]],
    [["n", "2", "0"], ["k", "1", "1"], ["k", "1", "2"], ["n", "1", "3"]],
    [["k", "1", "0"]],
    [["k", "1", "0"], [], ["n", "2", "2"], ["k", "1", "3"]],
    [["k", '1', 'a"b'], ["k", "1", "x,y"], ["n", "1", "l1\nl2"]],
    [["n", "2", "0"], ["n", "2", "1"]],
    [["k", "2", "0"], ["k", "1", "1"], ["n", "1", "2"], ["k", "1", "3"], ["k", "2", "4"]],
    [["k", "1", "0"], ["k", "1", "1"]],
    [[], ["k", "1", "1"], ["n", "1", "2"]],
    [["k", "1", " pad "], ["k", "1", "é"]],
]
R1 = '~ id: r1 ~ $[*][@v = #0 @only1 = #1 push("seen", #0) @t.k = #1 @z.k = subtract(count_lines(), count_lines()) @z.e = no() @z0 = subtract(count_lines(), count_lines()) #0 == "k"]'
R2 = "~ id: r2 ~ $[*][@v = #1 @only2 = #0]"
H1 = '~ id: h1 ~ $[*][#0 == "k"]'
RFILES = [
    [["c0", "c1"], ["k", "1"], ["n", "2"]],
    [["c0", "c1"], ["k", "7"], ["k", "8"], ["z", "9"]],
    [["c0", "c1"], ["q", "5"]],
]
RMETHODS = ["collect_paths", "fast_forward_paths", "collect_by_line"]
RFILTERS = [("*", "yes()"), ("*", '#1 == "7"'), ("*", 'not(#1 == "1")'), ("1*", "yes()")]


def cases(tier, seed):
    nfiles = 6 if tier == "quick" else 10
    maxlen = 3 if tier == "quick" else 4
    for n in range(2, maxlen + 1):
        for chain in itertools.product(range(len(FILTERS)), repeat=n):
            for s in range(1, n):
                for fi in range(nfiles):
                    for m in ("collect_paths", "next_paths"):
                        yield {"kind": "chain", "chain": list(chain), "suffix": s, "file": fi, "method": m}
    for chain in itertools.product(range(len(FILTERS)), repeat=2):
        for fi in (0, 4):
            for dq in ([";", '"'], [",", "'"], ["|", "'"]):
                yield {"kind": "chain", "chain": list(chain), "suffix": 1, "file": fi, "method": "collect_paths", "dialect": dq}
    maxh = 3 if tier == "quick" else 4
    for n in range(1, maxh + 1):
        for h in itertools.product(range(len(RFILES)), repeat=n):
            for m in RMETHODS:
                yield {"kind": "refs", "hist": list(h), "method": m}
    for n in (1, 2):
        for h in itertools.product(range(len(RFILES)), repeat=n):
            yield {"kind": "replay", "hist": list(h)}
            # the replayed file feeding a chain with source-mode preceding (two mechanisms at once)
            for fa, fb in itertools.product(range(len(RFILTERS)), repeat=2):
                for m in ("collect_paths", "next_paths"):
                    yield {"kind": "replay", "hist": list(h), "chain": [fa, fb], "method": m}


def sample(case):
    return case


def _read_csv(path, delimiter, quotechar):
    import csv

    with open(path, "r", encoding="utf-8", newline="") as f:
        return [row for row in csv.reader(f, delimiter=delimiter, quotechar=quotechar)]


def _alone(text, policy=("collect",)):
    from mcx import run

    return run.run_csvpath(text, "collect", policy=policy)


def run_case(case):
    from mcx import groups, run, sandbox
    from models import refarchive

    viol = []
    kind = case["kind"]

    def bad(what, got, want, cstr):
        viol.append({"case": cstr, "diverge": f"{what}: got {got} expected {want}", "sig": f"{kind}: {what}"})

    if kind == "chain":
        chain, s, fi, method = case["chain"], case["suffix"], case["file"], case["method"]
        rows = FILES[fi]
        cstr = f"chain={[FILTERS[i][0] + '|' + FILTERS[i][1] for i in chain]} preceding-from={s} file={fi} method={method}"
        members = []
        for k, i in enumerate(chain):
            sm = " source-mode: preceding" if k >= s else ""
            members.append(f"~ id: m{k}{sm} ~ $[{FILTERS[i][0]}][{FILTERS[i][1]}]")
        dl, qc = case.get("dialect") or [",", '"']
        if case.get("dialect"):
            cstr += f" delimiter={dl!r} quotechar={qc!r}"
        cp = groups.fresh(policy="collect", delimiter=dl, quotechar=qc)
        src = sandbox.write_csv(rows, delimiter=dl, quotechar=qc)
        groups.register(cp, src, members)
        origin = cp.file_manager.get_named_file("d")
        # composition model
        exp = []
        inputs = []
        ok = True
        for k, i in enumerate(chain):
            if k >= s:
                if not exp[k - 1]:
                    ok = False
                    break
                inp = sandbox.write_csv(exp[k - 1], delimiter=dl, quotechar=qc)
            else:
                inp = origin
            inputs.append(inp)
            a = run.run_csvpath(f"${inp}[{FILTERS[i][0]}][{FILTERS[i][1]}]", "collect", policy=("collect",), delimiter=dl, quotechar=qc)
            exp.append(a["lines"])
        if not ok:
            # a predecessor collected NOTHING. What the run then does (stop with an error, or let the successor read nothing) is not
            # documented and not asserted; but whatever it does, the successor must not come up with lines its predecessor never
            # collected ("reads exactly the lines its predecessor collected ... instead of the original file").
            kk = len(exp)  # index of the first member whose predecessor is empty
            lines, exc = groups.run_method(cp, method)
            results = groups.results_of(cp)
            if kk < len(results):
                try:
                    mem = [list(l) for l in results[kk].lines.next()] if hasattr(results[kk].lines, "next") else [list(l) for l in (results[kk].lines or [])]
                except Exception:  # noqa: BLE001
                    mem = []
                if mem:
                    bad(f"member {kk}: its predecessor collected nothing, yet it collected lines (read the original file?)", mem, [], cstr)
            rd = groups.run_dirs()
            dp = os.path.join(rd[0], f"m{kk}", "data.csv") if rd else None
            if dp and os.path.isfile(dp) and _read_csv(dp, dl, qc):
                bad(f"member {kk}: its predecessor collected nothing, yet its data.csv has lines", _read_csv(dp, dl, qc), [], cstr)
            return {"viol": viol, "states": [run.h64((tuple(chain), s, fi, "empty-predecessor"))], "transitions": 1, "nontrivial": False, "outcome": "empty-predecessor", "fingerprint": run.h64((cstr, [v["diverge"] for v in viol])), "extra": {"empty_predecessor_cases": 1}}
        lines, exc = groups.run_method(cp, method)
        if exc is not None:
            bad("run raised", f"{type(exc).__name__}: {str(exc)[:120]}", None, cstr)
            return {"viol": viol, "states": [], "transitions": 1, "nontrivial": False, "outcome": "exc", "fingerprint": run.h64(viol)}
        rdirs = groups.run_dirs()
        results = groups.results_of(cp)
        states = []
        narrowed = False
        for k in range(len(chain)):
            mdir = os.path.join(rdirs[0], f"m{k}") if rdirs else None
            dp = os.path.join(mdir, "data.csv") if mdir else None
            got = _read_csv(dp, dl, qc) if dp and os.path.isfile(dp) else []
            if got != exp[k]:
                bad(f"member {k} ({'preceding' if k >= s else 'origin'}): data.csv != composition model", got, exp[k], cstr)
            if k < len(results):
                try:
                    mem = [list(l) for l in results[k].lines.next()]
                except Exception as e:  # noqa: BLE001
                    mem = f"EXC {type(e).__name__}"
                if mem != exp[k]:
                    bad(f"member {k}: in-memory lines != composition model", mem, exp[k], cstr)
            man = refarchive.load_json(os.path.join(mdir, "manifest.json")) if mdir and os.path.isfile(os.path.join(mdir, "manifest.json")) else {}
            adf = man.get("actual_data_file")
            if k >= s:
                want = os.path.join(rdirs[0], f"m{k - 1}", "data.csv")
                if adf is None or os.path.normpath(os.path.join(sandbox.root(), adf)) != os.path.normpath(want):
                    bad(f"member {k}: manifest actual_data_file is not the predecessor's data.csv", adf, os.path.relpath(want, sandbox.root()), cstr)
                if man.get("source_mode_preceding") is not True:
                    bad(f"member {k}: manifest source_mode_preceding", man.get("source_mode_preceding"), True, cstr)
            else:
                if adf is None or os.path.normpath(os.path.join(sandbox.root(), adf)) != os.path.normpath(os.path.join(sandbox.root(), origin)):
                    bad(f"member {k}: manifest actual_data_file is not the origin file", adf, origin, cstr)
            if k >= s and len(exp[k]) < len(exp[k - 1]):
                narrowed = True
            states.append(run.h64((chain[k], k >= s, tuple(map(tuple, exp[k - 1] if k >= s else [])), tuple(map(tuple, exp[k])))))
        return {"viol": viol, "states": states, "transitions": sum(len(e) for e in exp), "nontrivial": narrowed, "outcome": run.h64(exp), "fingerprint": run.h64((cstr, [v["diverge"] for v in viol]))}

    if kind == "refs":
        hist, method = case["hist"], case["method"]
        cstr = f"refs history={hist} method={method}"
        cp = groups.fresh(policy="collect")
        for i, rows in enumerate(RFILES):
            cp.file_manager.add_named_file(name=f"f{i}", path=sandbox.write_csv(rows))
        cp.paths_manager.add_named_paths(name="R", paths=[R1, R2])
        cp.paths_manager.add_named_paths(name="H", paths=[H1])
        # a three-member group addressed through the tracking value; the middle member never collects a line
        cp.paths_manager.add_named_paths(name="H3", paths=[H1, "~ id: hz ~ $[*][no()]", "~ id: ha ~ $[*][yes()]"])
        for fi in hist:
            for g in ("R", "H", "H3"):
                m = method if not (g in ("H", "H3") and method == "fast_forward_paths") else "collect_paths"
                lines, exc = groups.run_method(cp, m, name=g, fname=f"f{fi}")
                if exc is not None:
                    bad(f"run of {g} raised", f"{type(exc).__name__}: {str(exc)[:100]}", None, cstr)
        last = RFILES[hist[-1]]
        data = [r for r in last]
        exp = {
            "a": data[-1][1],          # v: r2 (the later member) wrote #1 last
            "b": data[-1][1],          # only1 = #1 of the last record
            "c": data[-1][1],          # t.k
            "d": data[-1][0],          # only2 = #0
            "z": 0,                    # z.k: a tracking key whose final value is falsy
            "ze": False,               # z.e
            "z0": 0,                   # an untracked variable whose final value is falsy
            "hv": [r[1] for r in data if r[0] == "k"],
            "h0": [r[0] for r in data if r[0] == "k"],
            "m1": [r[1] for r in data if r[0] == "k"],
            "m2": [r[0] for r in data],
        }
        probe = cp.csvpath()
        pf = cp.file_manager.get_named_file("f0")
        text = f"${pf}[1][ @a = $R.variables.v @b = $R.variables.only1 @c = $R.variables.t.k @d = $R.variables.only2 @z = $R.variables.z.k @ze = $R.variables.z.e @z0 = $R.variables.z0 @hv = $H.headers.c1 @h0 = $H.headers.c0 @m2 = $H3.headers.c0.ha @m1 = $H3.headers.c1.h1 ]"
        got = {}
        try:
            with sandbox.capture_stdout():
                probe.parse(text)
                probe.fast_forward()
            got = {k: run.jsonable(v) for k, v in probe.variables.items()}
        except Exception as e:  # noqa: BLE001
            bad("probe raised", f"{type(e).__name__}: {str(e)[:120]}", None, cstr)
        perr = [(e.line_count, type(e.error).__name__, str(e.error)[:80]) for e in (probe.errors or [])]
        if not exp["hv"]:
            exp.pop("hv")  # nothing collected under the header: the docs define the reference as an existence test only
            got.pop("hv", None)
            exp.pop("h0")
            got.pop("h0", None)
            exp.pop("m1")
            got.pop("m1", None)
            perr = [e for e in perr if "data" not in e[2].lower() and "captured" not in e[2].lower()] if perr else perr
        elif perr:
            bad("probe errors", perr, [], cstr)
        for k in exp:
            if got.get(k) != exp[k]:
                what = {"a": "$R.variables.v (written by both members)", "b": "$R.variables.only1", "c": "$R.variables.t.k", "d": "$R.variables.only2", "z": "$R.variables.z.k (final value 0)", "ze": "$R.variables.z.e (final value False)", "z0": "$R.variables.z0 (final value 0)", "hv": "$H.headers.c1", "h0": "$H.headers.c0 (first header)", "m1": "$H3.headers.c1.h1 (member of a 3-member group, one member collected nothing)", "m2": "$H3.headers.c0.ha"}[k]
                bad(f"{what} is not the value the most recent run left", got.get(k), exp[k], cstr)
        return {"viol": viol, "states": [run.h64((tuple(hist[: i + 1]), method)) for i in range(len(hist))], "transitions": 2 * len(hist) + 1, "nontrivial": len(hist) > 1, "outcome": run.h64(exp), "fingerprint": run.h64((cstr, [v["diverge"] for v in viol]))}

    # replay
    hist = case["hist"]
    cstr = f"replay history={hist}"
    cp = groups.fresh(policy="collect")
    for i, rows in enumerate(RFILES):
        cp.file_manager.add_named_file(name=f"f{i}", path=sandbox.write_csv(rows))
    cp.paths_manager.add_named_paths(name="R", paths=[R1, R2])
    cp.paths_manager.add_named_paths(name="Q", paths=["~ id: q1 ~ $[*][yes()]"])
    from mcx import clock

    clock.install()
    clock.set_now(2024, 5, 6, 10, 0, 0)
    for fi in hist:
        clock.advance(1)
        lines, exc = groups.run_method(cp, "collect_paths", name="R", fname=f"f{fi}")
        if exc is not None:
            bad("run of R raised", f"{type(exc).__name__}: {str(exc)[:100]}", None, cstr)
    clock.advance(1)
    want = [r for r in RFILES[hist[-1]] if r[0] == "k"]
    if not want:
        return {"viol": viol, "states": [], "transitions": 0, "nontrivial": False, "outcome": "na", "fingerprint": "na", "extra": {"not_asserted_no_data": 1}}
    if case.get("chain"):
        fa, fb = case["chain"]
        m0 = f"~ id: c0 ~ $[{RFILTERS[fa][0]}][{RFILTERS[fa][1]}]"
        m1 = f"~ id: c1 source-mode: preceding ~ $[{RFILTERS[fb][0]}][{RFILTERS[fb][1]}]"
        cp.paths_manager.add_named_paths(name="QC", paths=[m0, m1])
        cstr += f" chain={[RFILTERS[fa], RFILTERS[fb]]} method={case['method']}"
        src = sandbox.write_csv(want)
        e0 = _alone(f"${src}[{RFILTERS[fa][0]}][{RFILTERS[fa][1]}]")["lines"]
        if not e0:
            return {"viol": viol, "states": [], "transitions": 0, "nontrivial": False, "outcome": "na", "fingerprint": "na", "extra": {"not_asserted_empty_predecessor": 1}}
        e1 = _alone(f"${sandbox.write_csv(e0)}[{RFILTERS[fb][0]}][{RFILTERS[fb][1]}]")["lines"]
        lines, exc = groups.run_method(cp, case["method"], name="QC", fname="$R.results.:last.r1")
        if exc is not None:
            bad("replay chain run raised", f"{type(exc).__name__}: {str(exc)[:160]}", None, cstr)
        else:
            qd = groups.run_dirs("QC")
            for k, exp in ((0, e0), (1, e1)):
                dp = os.path.join(qd[-1], f"c{k}", "data.csv") if qd else None
                got = refarchive.read_csv(dp) if dp and os.path.isfile(dp) else []
                if got != exp:
                    bad(f"replayed chain member {k}: data.csv != composition model", got, exp, cstr)
            mp = os.path.join(qd[-1], "c1", "manifest.json") if qd else None
            if mp and os.path.isfile(mp):
                adf = refarchive.load_json(mp).get("actual_data_file")
                wantp = os.path.join(qd[-1], "c0", "data.csv")
                if adf is None or os.path.normpath(os.path.join(sandbox.root(), adf)) != os.path.normpath(wantp):
                    bad("replayed chain member 1: manifest actual_data_file is not the predecessor's data.csv", adf, os.path.relpath(wantp, sandbox.root()), cstr)
        return {"viol": viol, "states": [run.h64(("replaychain", tuple(hist), fa, fb))], "transitions": len(hist) + 2, "nontrivial": len(e1) < len(e0) or len(e0) < len(want), "outcome": run.h64((e0, e1)), "fingerprint": run.h64((cstr, [v["diverge"] for v in viol]))}
    lines, exc = groups.run_method(cp, "collect_paths", name="Q", fname="$R.results.:last.r1")
    if exc is not None:
        bad("replay run raised", f"{type(exc).__name__}: {str(exc)[:160]}", None, cstr)
    else:
        qd = groups.run_dirs("Q")
        dp = os.path.join(qd[-1], "q1", "data.csv") if qd else None
        got = refarchive.read_csv(dp) if dp and os.path.isfile(dp) else None
        if got != want:
            bad("a results reference used as a file name did not replay the referenced member's data.csv of the most recent run", got, want, cstr)
    return {"viol": viol, "states": [run.h64(("replay", tuple(hist)))], "transitions": len(hist) + 1, "nontrivial": len(hist) > 1, "outcome": run.h64(want), "fingerprint": run.h64((cstr, [v["diverge"] for v in viol]))}
