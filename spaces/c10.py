"""C10 - every run gets its own run directory and never touches an earlier run's results."""
import datetime as dt
import os

ID = "C10"
MODE = "bfs"
RULE = (
    "state = history of named-paths runs; operation = (group in {g1, g2, g1 addressed as 'g1#two'}) x (new CsvPaths | reuse the live instance) x (run method) x "
    "(clock: stay in the same second | next instant | skip one instant, over a fixed ladder of instants that crosses 12:59:59->13:00:00, a minute boundary with a smaller seconds field (13:00:01->13:01:00) "
    "and midnight); every (state, operation) is replayed on the real CsvPaths in a fresh sandbox under a virtual clock; invariants "
    "after EVERY run: exactly one new run directory appeared, under archive/<its own group>/; every file of every earlier run is "
    "byte-identical; directory names of runs started in different seconds sort chronologically; $g.results.<prefix>:last.<id> and "
    ":first resolve - asked of a fresh instance, of the running instance and of one long-lived observer instance - into the most recent / earliest run with that prefix (prefixes: empty, date, date+hour); non-trivial = the "
    "history reuses an instance or repeats a second; canonical state = (run directory names per group, clock position, groups run "
    "on the live instance)"
)
BOUNDS = {
    "quick": "3 group addresses (g1, g2, g1#two) x {new,reuse} x {collect_paths, collect_by_line} x 3 clock steps = 36 operations, all histories to depth 3; plus all same-second chains of 4 and 5 runs over 4 operations; plus all 36 ordered pairs (x 2 groups x 2 clock steps) and 216 ordered triples of the six run methods on one reused instance",
    "thorough": "same 36 operations to depth 5 (the length the property's quantifier names), plus all six run methods (72 operations) to depth 2",
}
DEPTH = {"quick": 3, "thorough": 5}
BUDGET = {"quick": 500, "thorough": 3400}
CHUNK = 30
ASSUMPTIONS = [
    "virtual clock installed in every csvpath module that imported datetime (13 modules); uuids/timestamps are not compared",
    "when two runs share the extreme second either is accepted for :last/:first (their names sort alike); from three runs on :last must be the last one started",
    "canonical-state merge: the future depends only on the directory names per group, the clock and what the live instance has run",
]

D1 = dt.datetime(2024, 5, 6, tzinfo=dt.timezone.utc)


def _ladder():
    t = []
    for (d, h, m, s) in [
        (0, 12, 59, 58), (0, 12, 59, 59), (0, 13, 0, 0), (0, 13, 0, 1), (0, 13, 1, 0), (0, 23, 59, 59), (1, 0, 0, 1), (1, 9, 0, 0), (1, 12, 0, 0),
        (1, 12, 59, 59), (1, 13, 0, 0), (1, 22, 0, 0), (2, 0, 30, 0), (2, 12, 30, 0), (2, 13, 30, 0),
    ]:
        t.append(D1 + dt.timedelta(days=d, hours=h, minutes=m, seconds=s))
    return t


LADDER = _ladder()
METHODS_Q = ["collect_paths", "collect_by_line"]
METHODS_ALL = ["collect_paths", "fast_forward_paths", "next_paths", "collect_by_line", "fast_forward_by_line", "next_by_line"]
GROUPS = {"g1": ["~ id: one ~ $[*][yes()]", '~ id: two ~ $[*][#a == "1"]'], "g2": ["~ id: three ~ $[*][yes()]"]}
FIRST_ID = {"g1": "two", "g2": "three"}  # a member present in every run of the group (g1#two runs only member two)


def ops(tier):
    o = []
    for g in ("g1", "g2", "g1#two"):
        for inst in ("new", "reuse"):
            for m in METHODS_Q:
                for c in (0, 1, 2):
                    o.append([g, inst, m, c])
    return o


def extra_histories(tier):
    """beyond the BFS depth: (a) same-second chains of 4 and 5 runs over {g1,g2} x {new,reuse} x collect_paths (collision-suffix logic
    needs >=4 runs in one second); (b) thorough: all six methods to depth 2."""
    import itertools

    same = [[g, inst, "collect_paths", 0] for g in ("g1", "g2") for inst in ("new", "reuse")]
    same.append(["g1#two", "new", "collect_paths", 0])
    hs = []
    for n in (4, 5):
        for t in itertools.product(same, repeat=n):
            if t[0][1] == "reuse":
                continue
            hs.append([list(o) for o in t])
    # (c) every ordered pair and triple of the six run methods on ONE reused instance (what one method leaves behind for the next)
    for m1 in METHODS_ALL:
        for m2 in METHODS_ALL:
            for g2 in ("g1", "g2"):
                for c in (0, 1):
                    hs.append([["g1", "new", m1, 0], [g2, "reuse", m2, c]])
            for m3 in METHODS_ALL:
                hs.append([["g1", "new", m1, 0], ["g1", "reuse", m2, 0], ["g2", "reuse", m3, 1]])
    if tier == "thorough":
        o = []
        for g in ("g1", "g2"):
            for inst in ("new", "reuse"):
                for m in METHODS_ALL:
                    for c in (0, 1, 2):
                        o.append([g, inst, m, c])
        hs += [[a] for a in o] + [[a, b] for a in o for b in o]
    return hs


def _run(cp, method, g):
    if method == "next_paths":
        for _ in cp.next_paths(pathsname=g, filename="d"):
            pass
    elif method == "next_by_line":
        for _ in cp.next_by_line(pathsname=g, filename="d"):
            pass
    else:
        getattr(cp, method)(pathsname=g, filename="d")


def _rundirs(root):
    out = {}
    base = os.path.join(root, "archive")
    for g in GROUPS:
        p = os.path.join(base, g)
        out[g] = sorted(d for d in os.listdir(p) if os.path.isdir(os.path.join(p, d))) if os.path.isdir(p) else []
    return out


def run_history(hist):
    from mcx import canon, clock, run, sandbox
    from csvpath import CsvPaths

    clock.install()
    root = sandbox.root()
    sandbox.reset_dirs("archive", "inputs", "cache", "srcs")
    src = os.path.join(root, "srcs", "d.csv")
    with open(src, "w", encoding="utf-8", newline="") as f:
        f.write("a,b\n1,2\n3,4\n")
    idx = 0
    clock.set_dt(LADDER[0])
    setup = CsvPaths(print_default=False)
    setup.file_manager.add_named_file(name="d", path=src)
    for g, ps in GROUPS.items():
        setup.paths_manager.add_named_paths(name=g, paths=list(ps))
    cp = None
    observer = CsvPaths(print_default=False)
    live_groups = []
    runs = []  # model: (group, instant, dirname)
    collecting = {}
    viol = []
    cstr = " ; ".join("(" + ",".join(map(str, o)) + ")" for o in hist)
    nontrivial = False

    def bad(what, got, want):
        viol.append({"case": cstr, "diverge": f"{what}: got {got} expected {want}", "sig": what})

    for gspec, inst, method, cstep in hist:
        g = gspec.split("#")[0]
        if inst == "reuse" and cp is None:
            return {"disabled": True, "key": None, "viol": []}
        idx += cstep
        if idx >= len(LADDER):
            return {"disabled": True, "key": None, "viol": []}
        now = LADDER[idx]
        clock.set_dt(now)
        if inst == "new":
            cp = CsvPaths(print_default=False)
            live_groups = []
        else:
            nontrivial = True
        if cstep == 0 and runs:
            nontrivial = True
        before_dirs = _rundirs(root)
        before_trees = {}
        for (rg, rt, rd) in runs:
            if rd is not None:
                before_trees[(rg, rd)] = canon.raw_tree(os.path.join(root, "archive", rg, rd))
        try:
            with sandbox.capture_stdout():
                _run(cp, method, gspec)
        except Exception as e:  # noqa: BLE001
            bad("run raised", f"{type(e).__name__}: {str(e)[:120]}", None)
        live_groups.append(g)
        after_dirs = _rundirs(root)
        # I1: exactly one new run directory, under its own group
        new = [(gg, d) for gg in after_dirs for d in after_dirs[gg] if d not in before_dirs[gg]]
        mine = None
        if len(new) != 1:
            bad("new run directories created by this run", new, f"exactly one under archive/{g}")
        elif new[0][0] != g:
            bad("run directory is under another group's archive directory", new[0], g)
        else:
            mine = new[0][1]
        # I2: earlier runs byte-identical
        for (rg, rd), tr in before_trees.items():
            now_tr = canon.raw_tree(os.path.join(root, "archive", rg, rd))
            if now_tr != tr:
                changed = sorted(set(p for p, h in now_tr) ^ set(p for p, h in tr)) or sorted(p for (p, h), (p2, h2) in zip(now_tr, tr) if h != h2)
                bad("an earlier run's files were modified", f"{rg}/{rd}: {changed[:4]}", "byte-identical")
        runs.append((g, now, mine))
        collecting[(g, mine)] = method in ("collect_paths", "collect_by_line")
        # I3: chronological == lexicographic for runs of the same group in different seconds
        for gg in GROUPS:
            rs = [(t, d) for (rg, t, d) in runs if rg == gg and d is not None]
            for i in range(len(rs)):
                for j in range(len(rs)):
                    if rs[i][0] < rs[j][0] and not rs[i][1] < rs[j][1]:
                        bad("directory names do not sort chronologically", (rs[i][1], rs[j][1]), f"{rs[i][0]:%d %H:%M:%S} before {rs[j][0]:%d %H:%M:%S}")
        # I4: :last / :first resolution
        for gg in GROUPS:
            rs = [(t, d) for (rg, t, d) in runs if rg == gg and d is not None]
            if not rs:
                continue
            latest_t = max(t for t, d in rs)
            for prefix in ("", f"{latest_t:%Y-%m-%d}", f"{latest_t:%Y-%m-%d_%H}"):
                cands = [(t, d) for t, d in rs if f"{t:%Y-%m-%d_%H-%M-%S}".startswith(prefix)]
                if not cands:
                    continue
                for which in ("last", "first"):
                    ext = max(t for t, d in cands) if which == "last" else min(t for t, d in cands)
                    ok_dirs = [d for t, d in cands if t == ext]
                    if which == "last" and len(ok_dirs) >= 3:
                        # within one second the suffix orders the runs from the third on (<second>, <second>.0 sort alike, <second>.1
                        # and later sort after them): the most recent run is the last one started
                        ok_dirs = [ok_dirs[-1]]
                    if not all(collecting.get((gg, d)) for d in ok_dirs):
                        continue  # the extreme run kept no data.csv (fast_forward/next without collect): nothing to resolve to
                    ref = f"${gg}.results.{prefix}:{which}.{FIRST_ID[gg]}"
                    want = [os.path.join("archive", gg, d, FIRST_ID[gg], "data.csv") for d in ok_dirs]
                    # resolved by a fresh instance, by the instance that made the latest run, and by one long-lived observer instance that
                    # has resolved the same reference after every earlier run (an implementation may remember earlier answers)
                    for who, inst_ in (("fresh instance", CsvPaths(print_default=False)), ("running instance", cp), ("long-lived observer", observer)):
                        try:
                            p = inst_.file_manager.get_named_file(ref)
                        except Exception as e:  # noqa: BLE001
                            p = f"EXC {type(e).__name__}: {str(e)[:80]}"
                        pn = os.path.normpath(p) if isinstance(p, str) and not p.startswith("EXC") else p
                        if pn not in want and not (isinstance(pn, str) and any(pn.endswith(w) for w in want)):
                            bad(f":{which} resolution by a {who} (prefix kind {'empty' if not prefix else ('date' if len(prefix) == 10 else 'date+hour')})", pn, want)
    dirs = _rundirs(root)
    key = run.h64((sorted(dirs.items()), idx, tuple(sorted(set(live_groups))), live_groups[-1] if live_groups else None, cp is not None))
    return {"key": key, "viol": viol, "transitions": len(hist), "nontrivial": nontrivial}
