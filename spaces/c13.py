"""C13 - stop, skip, advance and last control the run as documented."""
import itertools

from models import refinterp, refscan

ID = "C13"
RULE = (
    "case = (k components - side-effecting markers push(\"m<i>\", line_number()) / print, optionally one that declines the firing line -, one control component inserted at a "
    "position 0..k, a file over {[k,idx],[n,idx],blank}, a scan window); the control is one of stop(C), C->stop(), stop(), "
    "skip(C), C->skip(), advance(1), advance(2), C->advance(1), last()->push, last.nocontrib()->push, bare last() in final "
    "position, C = (#0 == \"k\"); compared with models/refinterp.py: returned lines, every marker stack, printouts, "
    "scan_count, match_count; non-trivial = the control fired at least once; state = (variables, counters, flags, record)"
)
BOUNDS = {
    "quick": "k=1..2 markers, all positions, 12 controls, plus every stop/skip/advance control paired with a last() form and every ordered pair of six conditional stop/skip/advance controls firing on different row kinds; all files of <=4 records, windows {*, 1*, 1-2, 0+2}",
    "thorough": "k=1..3 markers (one of them a print), all positions, 12 controls, all files of <=5 records, 9 windows",
}
ASSUMPTIONS = [
    "not asserted: the scan's final line being a blank record (never offered; docs are silent)",
    "AND mode, error policy collect",
]
CHUNK = 150
BUDGET = {"quick": 500, "thorough": 3400}

C = ["==", ["h", 0], ["t", "k"]]


def fn(name, quals=(), args=()):
    return ["f", name, list(quals), list(args)]


def marker(i):
    return fn("push", [], [["t", f"m{i}"], fn("line_number")])


LPUSH = fn("push", [], [["t", "L"], fn("line_number")])
CONTROLS = {
    "stop(C)": fn("stop", [], [C]),
    "C->stop()": ["->", C, fn("stop")],
    "stop()": fn("stop"),
    "skip(C)": fn("skip", [], [C]),
    "C->skip()": ["->", C, fn("skip")],
    "advance(1)": fn("advance", [], [["t", 1]]),
    "advance(2)": fn("advance", [], [["t", 2]]),
    "C->advance(1)": ["->", C, fn("advance", [], [["t", 1]])],
    "C->advance(3)": ["->", C, fn("advance", [], [["t", 3]])],
    # the number of lines comes from the line itself (#1 holds the record index): every firing has its own n
    "C->advance(int(#1))": ["->", C, fn("advance", [], [fn("int", [], [["h", 1]])])],
    "last()->push": ["->", fn("last"), LPUSH],
    "last.nocontrib()->push": ["->", fn("last", ["nocontrib"]), LPUSH],
    "last()": fn("last"),
}
WINDOWS_Q = [[["all"]], [["from", 1]], [["range", 1, 2]], [["line", 0], ["line", 2]]]
WINDOWS_T = WINDOWS_Q + [[["line", 0]], [["line", 2]], [["range", 0, 2]], [["range", 1, 3]], [["range", 2, 1]], [["line", 1], ["range", 3, 4]]]


def programs(kmax, with_print):
    for k in range(1, kmax + 1):
        for pos in range(0, k + 1):
            for cname, ctrl in CONTROLS.items():
                if cname == "last()" and pos != k:
                    continue
                variants = [(None, None)]
                if k >= 2:
                    variants.append((None, 0))  # one marker replaced by a component that DECLINES the firing line (votes False on k lines)
                if with_print and k >= 2:
                    variants.append((k - 1, None))
                for pv, fv in variants:
                    comps = []
                    for i in range(k):
                        if pv is not None and i == pv:
                            comps.append(fn("print", [], [["t", "p"]]))
                        elif fv is not None and i == fv:
                            comps.append(["==", ["h", 0], ["t", "n"]])
                        else:
                            comps.append(marker(i))
                    comps.insert(pos, ctrl)
                    yield cname, pos, comps


def _other(ctrl):
    """the same control conditioned on the OTHER row kind (#0 == "n"), so that the two controls fire on different lines too."""
    import json

    return json.loads(json.dumps(ctrl).replace('["t", "k"]', '["t", "n"]'))


def two_control_programs():
    """one stop/skip/advance control together with a last() form (which stays the final component)."""
    for cname, ctrl in CONTROLS.items():
        if cname.startswith("last"):
            continue
        for lname in ("last()->push", "last.nocontrib()->push"):
            yield f"{cname} + {lname}", 1, [marker(0), ctrl, CONTROLS[lname]]
            yield f"{cname} + {lname}", 0, [ctrl, marker(0), CONTROLS[lname]]
    # two stop/skip/advance controls on one line (which of them wins, and what the loser's pending effect does to later lines)
    names = [c for c in CONTROLS if not c.startswith("last") and c not in ("stop()", "advance(1)", "advance(2)")]
    for a in names:
        for b in names:
            yield f"{a} + {b}", 0, [CONTROLS[a], marker(0), _other(CONTROLS[b])]


def files(nmax):
    for n in range(0, nmax + 1):
        for pat in itertools.product("knb", repeat=n):
            yield "".join(pat)


def cases(tier, seed):
    if tier == "quick":
        kmax, nmax, wins, wp = 2, 4, WINDOWS_Q, False
    else:
        kmax, nmax, wins, wp = 3, 5, WINDOWS_T, True
    progs = list(programs(kmax, wp)) + list(two_control_programs())
    for pat in files(nmax):
        for w in wins:
            # not asserted: scan's final line is a blank record
            n = len(pat)
            if not (w[0][0] in ("all", "from")):
                last = max(refscan.denote(w, 10**6) or {0})
                if last < n and pat[last] == "b":
                    continue
            for cname, pos, comps in progs:
                yield {"file": pat, "scan": w, "ctrl": cname, "pos": pos, "comps": comps}


def sample(case):
    return {"file": case["file"], "scan": refscan.render(case["scan"]), "match": refinterp.render_match(case["comps"])}


def model(case):
    pat, w, comps = case["file"], case["scan"], case["comps"]
    rows = [[] if ch == "b" else [ch, str(i)] for i, ch in enumerate(pat)]
    n = len(rows)
    offered = set(refscan.denote(w, n))
    scan_last = None if w[0][0] in ("all", "from") else max(refscan.denote(w, 10**6))
    it = refinterp.Interp(comps, True)
    ret = it.run(rows, offered, scan_last)
    return rows, it, ret


def _only_final_line_effects_right_of_last(case, gv, ev, gp, ep):
    """True iff the control is a 'last() -> ...' form and the ONLY differences are that marker/print components positioned to the
    right of it lack exactly their final entry (the effect of the line on which last() fired)."""
    if not case["ctrl"].startswith("last"):
        return False
    pos = case["pos"]
    right = case["comps"][pos + 1 :]
    right_markers = set()
    right_has_print = False
    for c in right:
        if c[0] == "f" and c[1] == "push":
            right_markers.add(c[3][0][1])
        if c[0] == "f" and c[1] == "print":
            right_has_print = True
    for k in set(gv) | set(ev):
        g, e = gv.get(k, []), ev.get(k, [])
        if g == e:
            continue
        if k in right_markers and isinstance(e, list) and g == e[:-1]:
            continue
        return False
    if gp != ep:
        if not (right_has_print and gp == ep[:-1]):
            return False
    return True


def run_case(case):
    from mcx import run, sandbox

    rows, it, ret = model(case)
    path = sandbox.write_csv(rows)
    text = f"${path}[{refscan.render(case['scan'])}]{refinterp.render_match(case['comps'])}"
    o = run.run_csvpath(text)
    cstr = f"file={case['file']} scan=[{refscan.render(case['scan'])}] match={refinterp.render_match(case['comps'])}"
    viol = []

    def bad(what, got, want):
        viol.append({"case": cstr, "diverge": f"{what}: got {got} expected {want}", "sig": f"{case['ctrl']}: {what}"})

    if o["exc"]:
        bad("exception", o["exc"], None)
    else:
        got = [int(l[1]) for l in o["lines"]]
        if got != ret:
            bad("returned lines", got, ret)
        gv = {k: v for k, v in o["vars"].items() if v is not None}
        ev = {k: v for k, v in it.vars.items() if v is not None}
        frozen_kf = False
        if gv != ev or o["printouts"] != it.prints:
            frozen_kf = _only_final_line_effects_right_of_last(case, gv, ev, o["printouts"], it.prints)
        if frozen_kf:
            bad("components right of last() lost their effects on the final line", (gv, o["printouts"]), (ev, it.prints))
        else:
            if gv != ev:
                bad("marker stacks", gv, ev)
            if o["printouts"] != it.prints:
                bad("printouts", o["printouts"], it.prints)
        if o["scan_count"] != it.scan_count:
            bad("scan_count", o["scan_count"], it.scan_count)
        if o["match_count"] != it.match_count:
            bad("match_count", o["match_count"], it.match_count)
        if o["errors"]:
            bad("errors", o["errors"], [])
    states = [run.h64((case["ctrl"], case["pos"], t.get("i"), t.get("advanced", False))) for t in it.trace]
    states.append(run.h64((run.jsonable(it.vars), it.scan_count, it.match_count, it.stopped)))
    return {
        "viol": viol,
        "states": states,
        "transitions": len(it.trace),
        "nontrivial": (it.control_fired + it.last_fired) > 0,
        "outcome": (tuple(ret), run.h64(run.jsonable(it.vars))),
        "fingerprint": run.h64({k: v for k, v in o.items() if k != "stdout"}),
    }
