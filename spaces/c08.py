"""C08 - a csvpath gives the same results alone, in a serial run and breadth-first (differential)."""
import itertools

ID = "C08"
RULE = (
    "case = (ordered group of 1..2 (thorough 3) members from an 12-member alphabet without cross-path signals, file over "
    "{[k,i],[n,i],blank}, run method); for every member the lines, variables (incl. private bookkeeping), printouts, is_valid, "
    "scan_count, match_count of the group run must equal those of a standalone CsvPath on the registered file; for the "
    "breadth-first methods the lines handed to the caller must equal, per record, the union (if_all_agree: intersection) of the "
    "still-running members' decisions; non-trivial = the group has >=2 members whose standalone results differ; state = "
    "(member, file, per-member observation)"
)
BOUNDS = {
    "quick": "14 singles + 182 ordered pairs x 12 files of <=3 records x 6 run methods (+ if_all_agree for the breadth-first methods)",
    "thorough": "singles, pairs, 504 ordered triples over a 9-member subset x all 40 files of <=3 records x 6 run methods (+ if_all_agree)",
}
CHUNK = 30
BUDGET = {"quick": 600, "thorough": 3400}
ASSUMPTIONS = [
    "differential oracle: the standalone CsvPath run is the reference; not asserted: `unmatched` (not in the statement)",
    "members print to the default stream only; error policy collect",
]

MEMBERS = [
    '~ id: f1 ~ $[*][#0 == "k"]',
    '~ id: w1 ~ $[*][@c = count() push("s", #1)]',
    '~ id: p1 ~ $[*][print("$.csvpath.line_number: $.headers.0 ")]',
    '~ id: st ~ $[*][push("seen", line_number()) #0 == "k" -> stop()]',
    '~ id: fa ~ $[*][#0 == "k" -> fail()]',
    '~ id: ad ~ $[*][push("seen", line_number()) #0 == "k" -> advance(1)]',
    '~ id: la ~ $[*][last.nocontrib() -> print("last $.csvpath.line_number ")]',
    '~ id: nm return-mode: no-matches ~ $[*][#0 == "k"]',
    '~ id: nr run-mode: no-run ~ $[*][fail() push("ran", line_number())]',
    "$[1*][yes()]",
    "~ id: er ~ $[*][@e = add(#0, 1)]",
    '~ id: pq print-mode: no-default ~ $[*][print("q $.csvpath.line_number ")]',
    '~ id: fs ~ $[*][push("seen", line_number()) #0 == "k" -> fail_and_stop()]',
    '~ id: tl ~ $[*][@t = total_lines() @cl = count_lines() print("$.csvpath.total_lines $.csvpath.count_lines ")]',
]
IDS = ["f1", "w1", "p1", "st", "fa", "ad", "la", "nm", "nr", None, "er", "pq", "fs", "tl"]
FILES_Q = ["k", "nk", "kn", "nkn", "knk", "nbk", "kb", "", "b", "nnk", "kkn", "bkn"]


def _all_files():
    out = []
    for n in range(0, 4):
        for pat in itertools.product("knb", repeat=n):
            out.append("".join(pat))
    return out


def cases(tier, seed):
    from mcx import groups

    files = FILES_Q if tier == "quick" else _all_files()
    sizes = (1, 2) if tier == "quick" else (1, 2, 3)
    for k in sizes:
        pool = range(len(MEMBERS)) if k < 3 else list(range(8)) + [len(MEMBERS) - 1]
        for grp in itertools.permutations(pool, k):
            for f in files:
                for m in groups.METHODS:
                    yield {"group": list(grp), "file": f, "method": m, "agree": False}
                    if m in groups.BYLINE and k > 1:
                        yield {"group": list(grp), "file": f, "method": m, "agree": True}


def sample(case):
    return {"group": [MEMBERS[i] for i in case["group"]], "file": case["file"], "method": case["method"], "if_all_agree": case["agree"]}


KEYS = ["vars", "priv", "scan_count", "match_count", "is_valid", "stopped", "last_line"]  # last_line: the line position the member ended on


def run_case(case):
    from mcx import groups, run, sandbox

    grp, pat, method, agree = case["group"], case["file"], case["method"], case["agree"]
    rows = [[] if ch == "b" else [ch, str(i)] for i, ch in enumerate(pat)]
    cp = groups.fresh(policy="collect")
    src = sandbox.write_csv(rows)
    groups.register(cp, src, [MEMBERS[i] for i in grp])
    kw = {"if_all_agree": True} if agree else {}
    lines, exc = groups.run_method(cp, method, **kw)
    cstr = f"group={[IDS[i] or 'noid' for i in grp]} file={pat!r} method={method} if_all_agree={agree}"
    viol = []
    states = []

    def bad(what, got, want, who=""):
        viol.append({"case": cstr, "diverge": f"{what}: got {got} expected {want}", "sig": f"{who} {what} {'byline' if method in groups.BYLINE else 'serial'}"})

    if exc is not None:
        bad("run raised", f"{type(exc).__name__}: {str(exc)[:120]}", None)
        return {"viol": viol, "states": [], "transitions": 1, "nontrivial": False, "outcome": "exc", "fingerprint": run.h64(viol)}
    regfile = cp.file_manager.get_named_file("d")
    results = groups.results_of(cp)
    if len(results) != len(grp):
        bad("number of results", len(results), len(grp))
    alone = []
    for k, mi in enumerate(grp):
        text = MEMBERS[mi]
        j = text.index("$")
        a = run.run_csvpath(text[:j] + "$" + regfile + text[j + 1 :], "collect")
        alone.append(a)
        if k >= len(results):
            continue
        r = results[k]
        who = IDS[mi] or "noid"
        pub, priv = run.split_vars(r.csvpath.variables)
        g = {"vars": pub, "priv": priv, "scan_count": r.csvpath.scan_count, "match_count": r.csvpath.match_count, "is_valid": r.csvpath.is_valid}
        try:
            g["last_line"] = r.csvpath.line_monitor.physical_line_number if r.csvpath.scanner is not None else None
        except Exception:  # noqa: BLE001
            g["last_line"] = None
        g["stopped"] = r.csvpath.stopped
        for key in KEYS:
            if g[key] != a[key]:
                bad(f"member {who}: {key} differs from the standalone run", g[key], a[key], who)
        gp = [x for v in r.get_printouts().values() for x in v]
        if gp != a["printouts"]:
            bad(f"member {who}: printouts differ from the standalone run", gp, a["printouts"], who)
        if method in groups.COLLECTING:
            try:
                gl = [list(l) for l in r.lines.next()] if hasattr(r.lines, "next") else [list(l) for l in r.lines]
            except Exception as e:  # noqa: BLE001
                gl = f"EXC {type(e).__name__}"
            if gl != a["lines"]:
                bad(f"member {who}: lines differ from the standalone run", gl, a["lines"], who)
        states.append(run.h64((mi, pat, a["vars"], a["scan_count"], a["match_count"], a["is_valid"])))
    # the lines handed to the caller of a breadth-first run
    if method in ("collect_by_line", "next_by_line") and lines is not None:
        exp = []
        for i, row in enumerate(rows):
            running = [a for a in alone if a["last_line"] is not None and a["last_line"] >= i]
            if not running:
                break
            dec = [row in (a["lines"] or []) for a in running]
            keep = all(dec) if agree else any(dec)
            if keep and len(row) > 0:
                exp.append(row)
        got = [list(l) for l in lines]
        if got != exp:
            bad("lines returned to the caller != per-record union/intersection of the members' decisions", got, exp)
    if method == "next_paths" and lines is not None:
        exp = [l for a in alone for l in (a["lines"] or [])]
        if [list(l) for l in lines] != exp:
            bad("next_paths lines != concatenation of the members' lines", [list(l) for l in lines], exp)
    distinct = len({run.h64((a["lines"], a["vars"])) for a in alone})
    return {
        "viol": viol,
        "states": states,
        "transitions": len(grp) * max(1, len(rows)),
        "nontrivial": len(grp) > 1 and distinct > 1,
        "outcome": run.h64([(a["lines"], a["vars"], a["is_valid"]) for a in alone]),
        "fingerprint": run.h64((cstr, [v["diverge"] for v in viol])),
    }
