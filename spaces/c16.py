"""C16 - print() emits its text verbatim with references replaced by current values."""
import itertools

from models import refprint

ID = "C16"
RULE = (
    "case = (print template assembled from <=3 (thorough 4) chunks over 10 text chunks and 6 (thorough 12) reference forms, subject only "
    "to the constraints the reference notation itself imposes; file; qualifier form plain | onmatch | once, default or named printer stream, with and without print-mode: no-default, in a CsvPath built with the delimiter ';', and across a reset_headers() that moves the header names); run as the real csvpath "
    "'@x = #a  @d.k = #b  push(\"s\", #a)  print(\"<template>\")' (+ a filter for onmatch) and compared per executed line with "
    "models/refprint.py: one printer entry per execution, every reference replaced by the current value, every other character "
    "unchanged, '..' directly after a reference = one literal dot; non-trivial = the template has a reference followed by text or by "
    "another reference; state = (template shape, line)"
)
BOUNDS = {
    "quick": "every name-terminating punctuation character (23) directly after each of 9 reference forms, followed by text and by another reference; all well-formed chunk sequences of length <=3 over 10 text chunks + 9 references; 2 files x plain, 1 file x onmatch/once for templates of length <=2",
    "thorough": "all well-formed chunk sequences of length <=4 over 10 text chunks + 6 references, length <=3 over 13 references, length 5 over 4 text chunks + 4 references, length <=4 over 5 text chunks + 13 references; 3 files x 8 forms, plus a LogPrinter family (length >=4: one file, plain form)",
}
CHUNK = 250
BUDGET = {"quick": 600, "thorough": 3400}
ASSUMPTIONS = [
    "not asserted: references to values that do not exist at that point; header references on rows too short to have the cell; two "
    "references with no character between them (the notation has no separator for that)",
    "text chunks contain no '$' and no '\"' (as the statement)",
]

TEXTS = ["a", " ", ",", "x y", "..", "-", ": ", "(", ")/", "a.b "]
REFS6 = [
    ["r", "variables", "x"],
    ["r", "variables", "d", "k"],
    ["r", "variables", "s", "length"],
    ["r", "headers", "a"],
    ["r", "metadata", "title"],
    ["r", "csvpath", "line_number"],
]
REFS12 = REFS6 + [
    ["r", "variables", "s", "0"],
    ["r", "headers", "1"],
    ["r", "headers", "x y"],
    ["r", "csvpath", "count_lines"],
    ["r", "csvpath", "count_scans"],
    ["r", "csvpath", "total_lines"],
    ["r", "headers", "77"],
]
FILES = [
    [["a", "b", "x y", "77"], ["1", "2", "3", "n1"], ["v w", "", "z", "n2"]],
    [["a", "b", "x y", "77"], ["10", "-3", "q", "n3"]],
    [["a", "b", "x y", "77"], ["k", "1.5", "é", "n4"], ["k2", "t", "u", "n5"], ["k3", "t", "u", "n6"]],
]  # the fourth header's NAME is all digits (and is not a valid index): $.headers.77 is a reference by name


def templates(maxlen, refs, texts=None):
    alpha = [["t", t] for t in (TEXTS if texts is None else texts)] + refs
    for n in range(1, maxlen + 1):
        for seq in itertools.product(alpha, repeat=n):
            seq = list(seq)
            if not any(c[0] == "r" for c in seq) and n > 1:
                continue
            if refprint.well_formed(seq):
                yield seq


PUNCT = "!^:,;%()-+@#{}[]&<>/|?'"  # every punctuation character that ends a reference name (besides '.', whitespace, '$', '"')


def punct_cases():
    """each punctuation character directly after each reference form, followed by text / by another reference."""
    refs = REFS6 + [["r", "headers", "1"], ["r", "headers", "77"], ["r", "variables", "s", "0"]]
    for ch in PUNCT:
        for r in refs:
            yield {"t": [r, ["t", ch + "z"]], "file": 0, "form": "plain"}
            yield {"t": [["t", "a "], r, ["t", ch], REFS6[0]], "file": 1, "form": "plain"}


def lastblank_cases():
    """print under last() on a file that ENDS IN A BLANK LINE: the references must show the values current on that final pass
    (docs/functions/line_number.md: the line number is the physical index and counts blank lines)."""
    refs = [REFS6[0], REFS6[1], REFS6[2], REFS6[4], REFS6[5]]
    for t in templates(2, refs, texts=[" ", "..", ": ", "a"]):
        for f in (0, 2):
            yield {"t": t, "file": f, "form": "lastblank"}


def logprinter_cases():
    """a LogPrinter (the other printer type of docs/printing.md) added next to the default standard-out printer and a capture printer."""
    for t in templates(2, REFS6[:3], texts=[" ", ": ", "a"]):
        yield {"t": t, "file": 0, "form": "logprinter"}


def cases(tier, seed):
    yield from punct_cases()
    yield from logprinter_cases()
    yield from lastblank_cases()
    if tier == "quick":
        for t in templates(3, REFS6 + [["r", "headers", "1"], ["r", "headers", "x y"], ["r", "headers", "77"]]):
            yield {"t": t, "file": 0, "form": "plain"}
            yield {"t": t, "file": 1, "form": "plain"}
            if len(t) <= 2:
                yield {"t": t, "file": 2, "form": "onmatch"}
                yield {"t": t, "file": 2, "form": "once"}
                yield {"t": t, "file": 2, "form": "named"}
                yield {"t": t, "file": 2, "form": "once_named"}
                yield {"t": t, "file": 1, "form": "nodefault"}
                yield {"t": t, "file": 1, "form": "semi"}
                yield {"t": t, "file": 0, "form": "reset"}
    else:
        seen = set()
        for t in itertools.chain(templates(4, REFS6), templates(3, REFS12), templates(5, REFS6[:4], texts=[" ", "..", "a.b ", ": "]), templates(4, REFS12, texts=[" ", "..", ",", "x y", ")/"])):
            k = repr(t)
            if k in seen:
                continue
            seen.add(k)
            for f in range(3):
                for form in ("plain", "onmatch", "once", "named", "once_named", "nodefault", "semi", "reset"):
                    if len(t) >= 4 and (f != 0 or form != "plain"):
                        continue
                    yield {"t": t, "file": f, "form": form}


def sample(case):
    return {"template": refprint.render(case["t"]), "file": case["file"], "form": case["form"]}


def run_case(case):
    from mcx import run, sandbox

    t, fi, form = case["t"], case["file"], case["form"]
    rows = FILES[fi]
    if form == "lastblank":
        rows = rows + [[]]
    if form == "reset":
        # record 2 is a new header row (same names, other positions); reset_headers() fires on it, a data record follows
        rows = [rows[0], rows[1], ["b", "77", "a", "x y"], ["r1", "r2", "r3", "r4"]]
    dl = ";" if form == "semi" else ","  # the same prints in a CsvPath built with another delimiter, in the same process
    path = sandbox.write_csv(rows, delimiter=dl)
    tmpl = refprint.render(t)
    q = {"plain": "", "onmatch": ".onmatch", "once": ".once", "named": "", "once_named": ".once", "nodefault": "", "lastblank": "", "semi": "", "reset": "", "logprinter": ""}[form]
    pm = " print-mode: no-default" if form == "nodefault" else ""  # only the registered capture printer exists: it must still get every entry
    filt = ' #a == "k"' if form == "onmatch" else ""
    stream = ', "audit"' if form in ("named", "once_named") else ""
    text = f'~ title: T 1{pm} ~ ${path}[*][ @x = #a @d.k = #b push("s", #a) print{q}("{tmpl}"{stream}){filt} ]'
    if form == "reset":
        text = f'~ title: T 1 ~ ${path}[*][ line_number() == 2 -> reset_headers() @x = #a @d.k = #b push("s", #a) print("{tmpl}") ]'
    if form == "lastblank":
        text = f'~ title: T 1 ~ ${path}[*][ @x = #a @d.k = #b push("s", #a) last.nocontrib() -> print("{tmpl}") ]'
    logged = None
    if form == "logprinter":
        import logging

        from csvpath.util.printer import LogPrinter

        logged = []

        class _H(logging.Handler):
            def emit(self, record):
                logged.append(record.getMessage())

        lg = logging.getLogger("mcx-c16-logprinter")
        lg.handlers = [_H()]
        lg.propagate = False
        lg.setLevel(logging.INFO)
        p_, tp_ = run.new_path(("collect",), print_default=True)
        p_.add_printer(LogPrinter(lg))
        exc_ = None
        with sandbox.capture_stdout() as cap_:
            try:
                p_.parse(text)
                p_.collect()
            except Exception as e:  # noqa: BLE001
                exc_ = e
        o = run.observe(p_, tp_, None, exc_, cap_.text)
    else:
        o = run.run_csvpath(text, delimiter=dl)
    # model
    exp = []
    stack = []
    hdrs = [h.strip() for h in rows[0]]
    nrec = len(rows)
    scans = 0
    for i, row in enumerate(rows):
        if form == "lastblank":
            if len(row) > 0:
                x = row[0].strip()
                d = {"k": row[1].strip()}
                stack.append(x)
                continue
            # the final, blank record: variables keep their last values, the line number is this record's index
            sx, sd, sstack = x, d, list(stack)
            exp.append(refprint.expand(t, {
                "variables": lambda name, sub: sx if name == "x" else (sd[sub] if name == "d" else (len(sstack) if sub == "length" else sstack[int(sub)])),
                "headers": None,
                "metadata": lambda name, sub: {"title": "T 1"}[name],
                "csvpath": lambda name, sub, i=i: {"line_number": i}[name],
            }))
            continue
        scans += 1
        if form == "reset" and i == 2:
            hdrs = [h.strip() for h in row]
        x = row[hdrs.index("a")].strip()
        d = {"k": row[hdrs.index("b")].strip()}
        stack.append(x)
        if form == "onmatch" and x != "k":
            continue
        if form in ("once", "once_named") and exp:
            continue

        def variables(name, sub, x=x, d=d, stack=list(stack)):
            if name == "x":
                return x
            if name == "d":
                return d[sub]
            if name == "s":
                return len(stack) if sub == "length" else stack[int(sub)]
            raise KeyError(name)

        def headers(name, sub, row=row):
            idx = hdrs.index(name) if name in hdrs else int(name)  # a name wins; an all-digit token that names no header is an index
            return row[idx]

        def metadata(name, sub):
            return {"title": "T 1"}[name]

        def csvpath(name, sub, i=i, scans=scans):
            return {"line_number": i, "count_lines": i + 1, "count_scans": scans, "total_lines": nrec}[name]

        exp.append(refprint.expand(t, {"variables": variables, "headers": headers, "metadata": metadata, "csvpath": csvpath}))
    cstr = f'print{q}("{tmpl}"{stream}) file={fi}'
    viol = []

    shape0 = "".join("R" if c[0] == "r" else "t" for c in t)

    def bad(what, got, want):
        viol.append({"case": cstr, "diverge": f"{what}: got {got!r} expected {want!r}", "sig": f"{what} shape={shape0} form={form}"})

    if o["exc"]:
        bad("exception", o["exc"], None)
    elif o["errors"]:
        bad("errors", [(e[0], e[1]) for e in o["errors"]][:2], [])
    else:
        got = o["printouts"]
        if len(got) != len(exp):
            bad("number of printer entries", len(got), len(exp))
        elif got != exp:
            k = next(i for i in range(len(exp)) if got[i] != exp[i])
            bad("printed text", got[k], exp[k])
    if logged is not None and not o["exc"] and logged != exp:
        bad("entries received by a LogPrinter registered next to the default printer", logged, exp)
    shape = "".join("R" if c[0] == "r" else "t" for c in t)
    nontrivial = any(t[i][0] == "r" and i + 1 < len(t) for i in range(len(t)))
    return {
        "viol": viol,
        "states": [run.h64((shape, tuple(c[1] if c[0] == "t" else c[1] + str(c[2]) for c in t), form, i)) for i in range(len(exp))],
        "transitions": len(rows),
        "nontrivial": nontrivial,
        "outcome": run.h64(exp),
        "fingerprint": run.h64((cstr, o["printouts"], o["errors"])),
    }
