"""C09 - the archived results of a run say what the run did."""
import itertools
import os

ID = "C09"
RULE = (
    "case = (ordered group of 1..2 (thorough 3) members from a 15-member alphabet (one run-mode: no-run, (two that collect errors, one with falsy variable values, an empty printout and an identity that starts with a digit), file, run method); run on a fresh CsvPaths in a clean "
    "sandbox; the archive tree is compared with models/refarchive.py computed from the in-memory Result objects after the method "
    "returns (meta.json identity/metadata/valid/stopped/counters, vars.json, errors.json, printouts.txt, data.csv, unmatched.csv, member manifest valid/completed/file_fingerprints, run "
    "manifest status/all_valid/all_completed/error_count, member directory names); the expected collected lines come from a standalone "
    "CsvPath run of the member on the same file; non-trivial = some member collected lines and some member had printouts, errors or "
    "failed; state = (member, what it archived)"
)
BOUNDS = {
    "quick": "15 singles + 210 ordered pairs x 7 files (quotes, delimiters, embedded newlines, non-ASCII, blank records, empty file) x 6 run methods; plus every single member run after a run of another group on the same instance",
    "thorough": "singles, pairs and 2,184 ordered triples x 10 files x 6 run methods",
}
CHUNK = 40
BUDGET = {"quick": 600, "thorough": 3400}
ASSUMPTIONS = [
    "variables are JSON-representable (scalars, tracking dicts, stacks)",
    "collected lines are taken from a standalone CsvPath run of the same member (C08 states they are the same)",
    "timestamps/uuids in manifests and meta.json are not compared",
]

MEMBERS = [
    "$[*][yes()]",
    '~ id: filt ~ $[*][#0 == "k"]',
    '~ id: vars ~ $[*][@c = count() @last = #1 push("s", #0)]',
    "~ id: track ~ $[*][@t.k = #1 tally(#0)]",
    '~ id: pr ~ $[*][print("line $.csvpath.line_number ")]',
    '~ id: prn ~ $[*][print("named $.csvpath.count_lines ", "other") print.once("first ")]',
    '~ id: failer ~ $[*][#0 == "k" -> fail()]',
    '~ id: stopper ~ $[*][push("seen", line_number()) #0 == "k" -> stop()]',
    "~ id: err ~ $[*][@e = add(#0, 1)]",
    '~ id: um unmatched-mode: keep ~ $[*][#0 == "k"]',
    "~ name: named ~ $[1*][yes()]",
    '~ id: nomatch return-mode: no-matches ~ $[*][#0 == "k"]',
    '~ id: norun run-mode: no-run ~ $[*][yes() print("never ")]',
    '~ id: err2 ~ $[*][#0 == "k" -> @d = divide(1, "x")]',
    '~ id: 2falsy ~ $[*][@zero = subtract(count_lines(), count_lines()) @f = no() @t.z = subtract(1, 1) @t.f = no() print("")]',
]
IDS = [None, "filt", "vars", "track", "pr", "prn", "failer", "stopper", "err", "um", "named", "nomatch", "norun", "err2", "2falsy"]
FILES = [
    [["k", "1"], ["n", "2"], ["k", "3"]],
    [["n", 'a"b'], ["k", "x,y"], ["n", "l1\nl2"]],
    [["k", "é日本"], [], ["n", " pad "]],
    [["n", "1"]],
    [],
    [["k", "1"], ["k", "1"], []],
    [["h1", "h2"], ["k", ""], ["", "z"], ["n"]],
    [["k", "a'b"], ["n", "c;d|e"]],
    [[], ["k", "1"], ["n", "2"]],
    [["n", "1"], ["n", "2"], ["n", "3"], ["k", "4"], ["n", "5"]],
]


def cases(tier, seed):
    from mcx import groups

    nf = 7 if tier == "quick" else 10
    sizes = (1, 2) if tier == "quick" else (1, 2, 3)
    for k in sizes:
        for grp in itertools.permutations(range(len(MEMBERS)), k):
            for fi in range(nf):
                for m in groups.METHODS:
                    yield {"group": list(grp), "file": fi, "method": m}
    yield from _reuse_cases()


def _reuse_cases():
    """a run on an instance that has already made a run of ANOTHER group (same member identities, so a directory or file left over
    from the earlier run would be found under the same names)."""
    from mcx import groups

    for pre in (2, 4, 5, 9):
        for mi in range(len(MEMBERS)):
            for fi in (0, 1):
                for m in groups.METHODS:
                    yield {"group": [mi], "file": fi, "method": m, "pre": pre}


def sample(case):
    return {"group": [MEMBERS[i] for i in case["group"]], "file": FILES[case["file"]], "method": case["method"]}


def run_case(case):
    from mcx import canon, groups, run, sandbox
    from models import refarchive

    grp, fi, method = case["group"], case["file"], case["method"]
    cp = groups.fresh(policy="collect")
    src = sandbox.write_csv(FILES[fi])
    groups.register(cp, src, [MEMBERS[i] for i in grp])
    if case.get("pre") is not None:
        # an earlier run of another group (holding the same member plus the pre-member) on the same instance and file
        cp.paths_manager.add_named_paths(name="g0", paths=[MEMBERS[case["pre"]]] + [MEMBERS[i] for i in grp])
        groups.run_method(cp, "collect_paths", name="g0")
    lines, exc = groups.run_method(cp, method)
    cstr = f"group={[IDS[i] or 'noid' for i in grp]} file={fi} method={method}" + (f" after a run of another group on the same instance (first member {IDS[case['pre']]})" if case.get("pre") is not None else "")
    viol = []
    states = []

    def bad(what, got, want):
        viol.append({"case": cstr, "diverge": f"{what}: got {got} expected {want}", "sig": what})

    if exc is not None:
        bad("run raised", f"{type(exc).__name__}: {str(exc)[:160]}", None)
        return {"viol": viol, "states": [], "transitions": 1, "nontrivial": False, "outcome": "exc", "fingerprint": run.h64(viol)}
    results = groups.results_of(cp)
    if len(results) != len(grp):
        bad("number of results", len(results), len(grp))
    rdirs = groups.run_dirs()
    if len(rdirs) != 1:
        bad("run directories", rdirs, "exactly one")
        return {"viol": viol, "states": [], "transitions": 1, "nontrivial": False, "outcome": "nodir", "fingerprint": run.h64(viol)}
    rdir = rdirs[0]
    regfile = cp.file_manager.get_named_file("d")
    collected_any = False
    interesting = False
    valids, completes, nerr = [], [], 0
    want_names = []
    for k, r in enumerate(results):
        mi = grp[k]
        ident = IDS[mi] if IDS[mi] else str(k)
        want_names.append(ident)
        mdir = os.path.join(rdir, ident)
        if not os.path.isdir(mdir):
            bad("member directory (identity or index) missing", sorted(os.listdir(rdir)), ident)
            continue
        # ground truth for the collected lines: the member alone
        text = MEMBERS[mi]
        j = text.index("$")
        alone = run.run_csvpath(text[:j] + "$" + regfile + text[j + 1 :], "collect")
        exp_lines = alone["lines"] if method in groups.COLLECTING else None
        if exp_lines:
            collected_any = True
        errors = [(e.line_count, type(e.error).__name__, f"{e.error}") for e in r.errors]
        pr = r.get_printouts()
        valid = r.csvpath.is_valid
        completed = r.csvpath.completed
        valids.append(valid)
        completes.append(completed)
        nerr += len(errors)
        if errors or any(pr.values()) or not valid:
            interesting = True
        refarchive.check_member(
            mdir,
            variables=r.csvpath.variables,
            errors=errors,
            printouts=pr,
            lines=exp_lines,
            unmatched=r.unmatched,
            valid=valid,
            completed=completed,
            bad=bad,
            tag=f"member {ident}: ",
            meta_expect={
                "identity": ident,
                "metadata": r.csvpath.metadata,
                "runtime": {
                    "valid": valid,
                    "stopped": r.csvpath.stopped,
                    "count_matches": r.csvpath.match_count,
                    "count_scans": r.csvpath.scan_count,
                },
            },
        )
        states.append(run.h64((mi, fi, method, run.jsonable(r.csvpath.variables), valid, completed, len(errors))))
    got_names = sorted(d for d in os.listdir(rdir) if os.path.isdir(os.path.join(rdir, d)))
    if got_names != sorted(want_names):
        bad("member directories", got_names, sorted(want_names))
    mp = os.path.join(rdir, "manifest.json")
    if not os.path.isfile(mp):
        bad("run manifest missing", None, "present")
    else:
        man = refarchive.load_json(mp)
        if man.get("status") != "complete":
            bad("run manifest status", man.get("status"), "complete")
        if man.get("all_valid") != all(valids):
            bad("run manifest all_valid", man.get("all_valid"), all(valids))
        if man.get("all_completed") != all(completes):
            bad("run manifest all_completed", man.get("all_completed"), all(completes))
        if man.get("error_count") != nerr:
            bad("run manifest error_count", man.get("error_count"), nerr)
    tree = canon.tree(rdir)
    return {
        "viol": viol,
        "states": states,
        "transitions": len(grp),
        "nontrivial": collected_any and interesting,
        "outcome": run.h64([p for p, h in tree]) + run.h64(valids + completes),
        "fingerprint": run.h64((cstr, [v["diverge"] for v in viol], [p for p, h in tree])),
    }
