"""C07 - collect(), next() and fast_forward() are the same run (differential, no model)."""
import itertools

from models import refinterp, refscan
from spaces import c13

ID = "C07"
RULE = (
    "case = (csvpath, file, scan window); three fresh CsvPath objects run it by collect(), next() and fast_forward(): lines "
    "(first two) and variables incl. private bookkeeping, counters, validity, stopped, errors, printouts (all three) must be "
    "equal; then for every n in 1..matches+1 collect(nexts=n) must return the first n lines and leave exactly the record of a "
    "next() generator advanced n yields and not resumed; programs = the C13 control programs + singles and ordered pairs of 22 "
    "writer/print/fail components; non-trivial = at least one line matched and at least one did not; state = observation "
    "record after n yields"
)
BOUNDS = {
    "quick": "C13 programs with k<=2 (windows {*, 1*, 1-2, 0+2}; with return-mode no-matches and unmatched-mode keep on * and 1-2) + 22 writer singles (windows {*, 1-2}, both return modes, unmatched-mode keep) + 462 ordered pairs (window *); all files of <=3 records over {k,n,blank}; every n",
    "thorough": "C13 programs with k<=3 on files of <=4 records x 10 windows; writer singles/pairs x 4 windows and 990 triples on files of <=3 records; every n",
}
ASSUMPTIONS = ["differential oracle: no expected values, the three methods must agree with each other", "error policy collect"]
CHUNK = 60
BUDGET = {"quick": 600, "thorough": 3400}

WRITERS = [
    '@c = count()',
    '@t.onmatch = count()',
    'push("s", #0)',
    'tally(#0)',
    '@x.increase = #1',
    'print("$.csvpath.line_number: $.variables.c ")',
    '#0 == "k" -> fail()',
    '#0 == "k" -> fail_and_stop()',
    'first(#0)',
    'every(#0, 2)',
    'last() -> @z = count_lines()',
    '#0 == "n"',
    '@sum = sum(#1)',
    'print.onmatch("m $.csvpath.count_matches ")',
    '@e = add(#0, 1)',
    'counter.cn(1)',
    'has_dups(#0)',
    'skip(#0 == "k")',
    'stop(#0 == "k")',
    '#0 == "k" -> advance(1)',
    'collect(#1)',
    '#0 == "k" -> replace(#1, "r")',
    'append("cp", #5)',
    '#0 == "n" -> replace(1, #5)',
]


def cases(tier, seed):
    if tier == "quick":
        kmax, nmax, wins, wp = 2, 3, c13.WINDOWS_Q, False
    else:
        kmax, nmax, wins, wp = 3, 4, c13.WINDOWS_T, True
    progs = [refinterp.render_match(comps) for _, _, comps in c13.programs(kmax, wp)]
    singles = ["[ " + w + " ]" for w in WRITERS]
    pairs = ["[ " + a + " " + b + " ]" for a, b in itertools.permutations(WRITERS, 2)]
    triples = []
    if tier == "thorough":
        triples = ["[ " + " ".join(t) + " ]" for t in itertools.permutations(WRITERS[:8] + WRITERS[17:20], 3)]
    star = [["all"]]
    wwins = [star, [["range", 1, 2]]] if tier == "quick" else c13.WINDOWS_Q
    pwins = [star] if tier == "quick" else c13.WINDOWS_Q
    nm = "~ return-mode: no-matches ~ "
    um = "~ unmatched-mode: keep ~ "
    # records made of a single empty / whitespace-only cell
    for pat in ("e", "w", "ke", "ek", "kwn", "wk", "nek", "kew", "ewb", "kbe"):
        for m in ["[ yes() ]", "[ no() ]"] + singles:
            yield {"file": pat, "scan": star, "match": m}
            yield {"file": pat, "scan": star, "match": m, "pre": nm}
    for pat in c13.files(nmax):
        for w in wins:
            for m in progs:
                yield {"file": pat, "scan": w, "match": m}
        if len(pat) > 3:
            continue  # the writer families use files of <=3 records in both tiers
        for m in progs:
            yield {"file": pat, "scan": star, "match": m, "pre": nm}
            yield {"file": pat, "scan": star, "match": m, "pre": um}
            yield {"file": pat, "scan": [["range", 1, 2]], "match": m, "pre": um}
        for w in wwins:
            for m in singles:
                yield {"file": pat, "scan": w, "match": m}
                yield {"file": pat, "scan": w, "match": m, "pre": nm}
                if "collect(" not in m:
                    # not asserted: the collect() projection together with unmatched-mode keep (unmatched lines are projected too, and
                    # only under CsvPath.collect(); a line too short for the projection then raises there only)
                    yield {"file": pat, "scan": w, "match": m, "pre": um}
        for w in pwins:
            for m in pairs:
                yield {"file": pat, "scan": w, "match": m}
        for m in triples:
            yield {"file": pat, "scan": star, "match": m}


def sample(case):
    return {"file": case["file"], "scan": refscan.render(case["scan"]), "match": case["match"], "comment": case.get("pre", "")}


KEYS_ALL = ["vars", "priv", "scan_count", "match_count", "is_valid", "stopped", "errors", "printouts", "exc", "last_line"]  # `unmatched` is kept by collect() only (not in the statement)


def run_case(case):
    from mcx import run, sandbox

    pat = case["file"]
    # b = blank record, e = a record that is one EMPTY cell, w = a record that is one whitespace-only cell (both are records, not blanks)
    rows = [[] if ch == "b" else ([""] if ch == "e" else (["   "] if ch == "w" else [ch, str(i)])) for i, ch in enumerate(pat)]
    path = sandbox.write_csv(rows)
    text = f"{case.get('pre', '')}${path}[{refscan.render(case['scan'])}]{case['match']}"
    a = run.run_csvpath(text, "collect")
    b = run.run_csvpath(text, "next")
    c = run.run_csvpath(text, "fast_forward")
    cstr = f"{case.get('pre', '')}file={pat} scan=[{refscan.render(case['scan'])}] match={case['match']}"
    viol = []
    states = []

    def bad(what, d):
        viol.append({"case": cstr, "diverge": f"{what}: {d}", "sig": what + " " + ",".join(sorted(x[0] for x in d))})

    # when an exception escapes, collect() has no return value while the next() loop has already received some lines
    d = run.diff(a, b, KEYS_ALL + ([] if a["exc"] or b["exc"] else ["lines"]))
    if d:
        bad("collect() vs next()", d)
    d = run.diff(a, c, KEYS_ALL)
    if d:
        bad("collect() vs fast_forward()", d)
    if b["exc"] is None and b.get("next_objects_after_the_run") != b["lines"]:
        bad("a line yielded by next() was changed after it had been yielded", [("lines", b.get("next_objects_after_the_run"), b["lines"])])
    states.append(run.h64([a[k] for k in KEYS_ALL]))
    nruns = 3
    full = a["lines"]
    if full is not None and a["exc"] is None:
        for n in range(1, len(full) + 2):
            x = run.run_csvpath(text, "collect", nexts=n)
            y = run.run_csvpath(text, "next", steps=n)
            nruns += 2
            if x["lines"] != full[:n]:
                bad(f"collect(nexts=n) lines", [("lines", x["lines"], full[:n])])
            d = run.diff(x, y, KEYS_ALL + ["lines"])
            if d:
                bad("collect(nexts=n) vs next() advanced n yields", d)
            states.append(run.h64([x[k] for k in KEYS_ALL]))
    nl = len(full or [])
    nonblank = sum(1 for ch in pat if ch != "b")
    return {
        "viol": viol,
        "states": states,
        "transitions": nruns,
        "nontrivial": 0 < nl < nonblank,
        "outcome": run.h64([a[k] for k in ["lines", "vars", "scan_count", "match_count", "is_valid", "printouts"]]),
        "fingerprint": run.h64({k: v for k, v in a.items() if k != "stdout"}),
    }
