"""C02 - the scan part selects exactly the lines it denotes."""
from models import refscan

ID = "C02"
RULE = (
    "case = (file of N records each either [str(i)] or blank, one scan string); every blank pattern x every scan "
    "string of the shapes '*', 'n*', 'n', 'a-b' (both orders), ascending non-overlapping '+'-lists of numbers and "
    "forward ranges, with every bound in 0..N+2; two real runs per case ([yes()] and [push('ln', line_number())]); "
    "non-trivial = the scan both includes and excludes at least one non-blank record; state = (N, blank mask, "
    "offered set, record index)"
)
BOUNDS = {
    "quick": "N=0..5, all 2^N blank patterns, '+'-lists of <=3 items; plus N=12 with <=1 blank and scans over bounds {0,1,9,10,11,12,13} (two-digit line numbers)",
    "thorough": "N=0..7 all blank patterns, N=8..10 with <=2 blanks, '+'-lists of <=3 items (4 items for N<=5)",
}
ASSUMPTIONS = [
    "files are written by csv.writer with one cell per record; a blank record is an empty physical line",
    "grammar objects are memoised per grammar text (checked against un-memoised fresh-process runs)",
]
CHUNK = 150
BUDGET = {"quick": 400, "thorough": 3400}


def _pluslists(maxv, maxitems):
    """ascending, non-overlapping lists (>=2 items) of numbers / forward ranges with bounds in 0..maxv."""
    out = []

    def rec(prefix, start, left):
        if len(prefix) >= 2:
            out.append(list(prefix))
        if left == 0:
            return
        for a in range(start, maxv + 1):
            rec(prefix + [["line", a]], a + 1, left - 1)
            for b in range(a + 1, maxv + 1):
                rec(prefix + [["range", a, b]], b + 1, left - 1)

    rec([], 0, maxitems)
    return out


def scans(n, maxitems):
    m = n + 2
    out = [[["all"]]]
    for a in range(m + 1):
        out.append([["from", a]])
    for a in range(m + 1):
        out.append([["line", a]])
    for a in range(m + 1):
        for b in range(m + 1):
            out.append([["range", a, b]])  # a == b is the degenerate inclusive range {a}
    out.extend(_pluslists(m, maxitems))
    return out


def _masks(n, maxblanks=None):
    for mask in range(1 << n):
        if maxblanks is not None and bin(mask).count("1") > maxblanks:
            continue
        yield [bool(mask >> i & 1) for i in range(n)]


def cases(tier, seed):
    if tier == "quick":
        plan = [(n, None, 3) for n in range(0, 6)]
    else:
        plan = [(n, None, 4 if n <= 5 else 3) for n in range(0, 8)] + [(n, 2, 3) for n in (8, 9, 10)]
    for n, maxblanks, maxitems in plan:
        sc = scans(n, maxitems)
        for blanks in _masks(n, maxblanks):
            for items in sc:
                yield {"n": n, "blanks": blanks, "scan": items}
    if tier == "quick":
        # two-digit line numbers (the quick core stops at 7): files of 12 records with <=1 blank, scans built from {0,1,9,10,11,12,13}
        vals = [0, 1, 9, 10, 11, 12, 13]
        sc = [[["all"]]] + [[["from", a]] for a in vals] + [[["line", a]] for a in vals]
        sc += [[["range", a, b]] for a in vals for b in vals if a != b]
        sc += [[["line", a], ["line", b]] for a in vals for b in vals if a < b]
        sc += [[["line", a], ["range", b, c]] for a in vals for b in vals for c in vals if a < b < c]
        sc += [[["range", a, b], ["line", c]] for a in vals for b in vals for c in vals if a < b < c]
        for blanks in _masks(12, 1):
            if sum(blanks) and blanks.index(True) not in (0, 9, 10, 11):
                continue
            for items in sc:
                yield {"n": 12, "blanks": blanks, "scan": items}


def sample(case):
    return {"records": case["n"], "blank": case["blanks"], "scan": refscan.render(case["scan"])}


def run_case(case):
    from mcx import run, sandbox

    n, blanks, items = case["n"], case["blanks"], case["scan"]
    rows = [[] if blanks[i] else [str(i)] for i in range(n)]
    path = sandbox.write_csv(rows)
    scan = refscan.render(items)
    exp = refscan.offered(items, blanks)
    a = run.run_csvpath(f"${path}[{scan}][yes()]")
    b = run.run_csvpath(f'${path}[{scan}][push("ln", line_number())]')
    viol = []
    cstr = f"N={n} blanks={''.join('b' if x else '.' for x in blanks)} scan=[{scan}]"

    def bad(what, got, want):
        viol.append({"case": cstr, "diverge": f"{what}: got {got} expected {want}", "sig": what})

    got_lines = a["lines"]
    want_lines = [[str(i)] for i in exp]
    if a["exc"] or b["exc"]:
        bad("exception", (a["exc"], b["exc"]), None)
    else:
        if got_lines != want_lines:
            bad("returned-lines", got_lines, want_lines)
        if a["scan_count"] != len(exp):
            bad("scan_count", a["scan_count"], len(exp))
        if a["match_count"] != len(exp):
            bad("match_count", a["match_count"], len(exp))
        ln = b["vars"].get("ln", [])
        if ln != exp:
            bad("line_number-markers", ln, exp)
        if b["scan_count"] != len(exp):
            bad("scan_count(push run)", b["scan_count"], len(exp))
        if a["errors"] or b["errors"]:
            bad("errors", (a["errors"], b["errors"]), [])
    nonblank = [i for i in range(n) if not blanks[i]]
    nontrivial = 0 < len(exp) < len(nonblank)
    mask = "".join("1" if x else "0" for x in blanks)
    states = [run.h64((n, mask, tuple(exp), i)) for i in range(n + 1)]
    return {
        "viol": viol,
        "states": states,
        "transitions": 2 * n,
        "nontrivial": nontrivial,
        "outcome": (tuple(map(tuple, got_lines or [])), a["scan_count"], tuple(b["vars"].get("ln", []))),
        "fingerprint": run.h64((a, b)),
    }
