"""C18 - a run that aborts still leaves a truthful, readable record."""
import itertools
import os

ID = "C18"
RULE = (
    "fault enumeration: case = (group of 1..3 members with the aborting member at every index, error kind, how 'raise' is configured "
    "(validation-mode comment | config policy), file of n records with the offending record at every position, run method); run on the "
    "real CsvPaths; after the exception escapes: the caller got the exception; every member that had started has a directory with "
    "loadable meta/vars/errors; the aborting member's errors.json has an error with the abort record's line number and its manifest "
    "says completed false; members that finished earlier satisfy the C09 archive model in full; the run manifest exists and its status "
    "is not complete; inputs/named_files and inputs/named_paths are byte-identical; then one more run of the same group on the same "
    "instance (clean file) completes, gets its own new run directory, and leaves the aborted run byte-identical; non-trivial = abort "
    "happened after at least one member or record was processed; state = (abort member, abort record, method, what was archived)"
)
BOUNDS = {
    "quick": "groups of 1..3 (abort member at every index) x 3 abort kinds (argument mismatch, Python exception, a collect() projection failing outside the match components) x 2 raise configurations (validation-mode comment, config policy raise+collect) x files of 2..4 records (every abort position) x 6 methods x 2 follow-up methods; plus the policies quiet+raise+collect and raise+collect+stop+fail+print for one kind",
    "thorough": "groups of 1..4, files of 2..8 records, every (member, record) abort point, 6 methods, 2 kinds x 2 configurations (+ 2 wider policies for one kind)",
}
CHUNK = 30
BUDGET = {"quick": 600, "thorough": 3400}
ASSUMPTIONS = [
    "policies used contain 'collect' (the statement requires the aborting error in errors.json)",
    "serial methods: members after the aborting one never start; breadth-first methods: every member has started",
]

OK1 = "~ id: ok1 ~ $[*][yes()]"
OK2 = '~ id: ok2 ~ $[*][@c = count() print("p $.csvpath.line_number ")]'
OK3 = '~ id: ok3 ~ $[*][push("s", #0)]'
LATE = '~ id: late ~ $[3][push("s", #3)]'  # a member whose only scanned record is record 3: a breadth-first abort before that leaves it unfinished
EARLY = '~ id: early ~ $[0-1][push("s", #3)]'  # a member whose scan ends at record 1: in a breadth-first run it has finished before a later abort
KINDS = {
    "argtype": ("@e = add(#1, 1)", ["g", "1", "1"], ["b", "x", "1"]),
    "pyexc": ("@e = mod(#1, #2)", ["g", "4", "2"], ["b", "4", "0"]),
    # a failure outside the match components: the collect() projection names a header the short row does not have
    "project": ("collect(2) yes()", ["g", "4", "2"], ["b"]),
}


def _abort_member(kind, via):
    comp = KINDS[kind][0]
    vm = " validation-mode: raise" if via == "comment" else ""
    return f"~ id: ab{vm} ~ $[*][{comp}]"


def cases(tier, seed):
    from mcx import groups

    gmax = 3 if tier == "quick" else 4
    sizes = (2, 3, 4) if tier == "quick" else (2, 3, 4, 5, 6, 8)
    oks = ["ok1", "ok2", "ok3"]
    for gsize in range(1, gmax + 1):
        for abidx in range(gsize):
            for kind in KINDS:
                for via in ("comment", "config", "config-quiet", "config-all"):
                    for n in sizes:
                        for pos in range(n):
                            for m in groups.METHODS:
                                for follow in ("same", "cross"):
                                    if via.startswith("config-") and (kind != "argtype" or follow != "same"):
                                        continue  # the two wider policies: one error kind, one follow-up
                                    if kind == "project" and m == "fast_forward_by_line":
                                        continue  # a breadth-first run that does not collect never applies the projection: nothing aborts
                                    yield {"gsize": gsize, "abidx": abidx, "kind": kind, "via": via, "n": n, "pos": pos, "method": m, "follow": follow}


    # a member that finishes early (bounded scan) next to a later abort
    for gsize in (2, 3):
        for abidx in range(gsize):
            for pos in range(4):
                for m in groups.METHODS:
                    yield {"gsize": gsize, "abidx": abidx, "kind": "argtype", "via": "config", "n": 4, "pos": pos, "method": m, "follow": "same", "early": True}
                    yield {"gsize": gsize, "abidx": abidx, "kind": "argtype", "via": "config", "n": 4, "pos": pos, "method": m, "follow": "same", "early": "late"}


def sample(case):
    return case


def run_case(case):
    from mcx import canon, groups, run, sandbox
    from models import refarchive

    gsize, abidx, kind, via, n, pos, method = (case[k] for k in ("gsize", "abidx", "kind", "via", "n", "pos", "method"))
    oks = [OK1, OK2, OK3]
    okids = ["ok1", "ok2", "ok3"]
    if case.get("early") == "late":
        oks, okids = [LATE, OK2, OK3], ["late", "ok2", "ok3"]
    elif case.get("early"):
        oks, okids = [EARLY, OK2, OK3], ["early", "ok2", "ok3"]
    members, ids = [], []
    j = 0
    for i in range(gsize):
        if i == abidx:
            members.append(_abort_member(kind, via))
            ids.append("ab")
        else:
            members.append(oks[j % 3])
            ids.append(okids[j % 3])
            j += 1
    good, badrow = KINDS[kind][1], KINDS[kind][2]
    rows = [list(badrow if i == pos else good) + [str(i)] for i in range(n)]
    policy = {"comment": "collect", "config": "raise, collect", "config-quiet": "quiet, raise, collect", "config-all": "raise, collect, stop, fail, print"}[via]
    cp = groups.fresh(policy=policy)
    src = sandbox.write_csv(rows)
    groups.register(cp, src, members)
    src2 = sandbox.write_csv([list(good) + [str(i)] for i in range(4 if case.get("early") == "late" else 2)])
    cp.file_manager.add_named_file(name="d2", path=src2)
    inputs_before = canon.raw_tree(os.path.join(sandbox.root(), "inputs"))
    lines, exc = groups.run_method(cp, method)
    cstr = f"group={ids} kind={kind} raise-via={via} n={n} abort-record={pos} abort-at-last-record={'yes' if pos == n - 1 else 'no'} method={method} follow-up={case.get('follow', 'same')}"
    viol = []

    def bad(what, got, want):
        viol.append({"case": cstr, "diverge": f"{what}: got {got} expected {want}", "sig": what})

    if exc is None:
        bad("the exception did not reach the caller", None, "an exception")
    rdirs = groups.run_dirs()
    states = []
    if len(rdirs) != 1:
        bad("run directories after the aborted run", [os.path.basename(r) for r in rdirs], "exactly one")
    else:
        rdir = rdirs[0]
        serial = method in groups.SERIAL
        started = ids[: abidx + 1] if serial else ids
        regfile = cp.file_manager.get_named_file("d")
        results = {r.identity_or_index: r for r in groups.results_of(cp)}
        for k, ident in enumerate(ids):
            mdir = os.path.join(rdir, ident)
            if ident not in started:
                continue
            if not os.path.isdir(mdir):
                bad("a started member has no result directory", sorted(os.listdir(rdir)), ident)
                continue
            loaded = {}
            for fn in ("meta.json", "vars.json", "errors.json"):
                p = os.path.join(mdir, fn)
                if not os.path.isfile(p):
                    bad(f"{fn} of a started member missing", ident, "present")
                    continue
                try:
                    loaded[fn] = refarchive.load_json(p)
                except ValueError as e:
                    bad(f"{fn} of a started member is not readable", f"{ident}: {str(e)[:60]}", "valid json")
            mp = os.path.join(mdir, "manifest.json")
            man = None
            if os.path.isfile(mp):
                try:
                    man = refarchive.load_json(mp)
                except ValueError:
                    bad("member manifest not readable", ident, "valid json")
            if ident == "ab":
                es = loaded.get("errors.json")
                if es is not None and pos not in [e.get("line_count") for e in es]:
                    bad("aborting member's errors.json lacks the aborting error's line number", [e.get("line_count") for e in es], pos)
                if man is None:
                    bad("aborting member has no manifest", None, "completed: false")
                elif man.get("completed") is not False:
                    bad("aborting member's manifest completed", man.get("completed"), False)
            elif serial and k < abidx:
                # finished earlier: full C09 check
                r = results.get(ident)
                if r is None:
                    bad("no in-memory result for a finished member", ident, "present")
                else:
                    text = members[k]
                    jx = text.index("$")
                    alone = run.run_csvpath(text[:jx] + "$" + regfile + text[jx + 1 :], "collect", policy=("collect",))
                    exp_lines = alone["lines"] if method in groups.COLLECTING else None
                    errors = [(e.line_count, type(e.error).__name__, f"{e.error}") for e in r.errors]
                    refarchive.check_member(
                        mdir, variables=r.csvpath.variables, errors=errors, printouts=r.get_printouts(), lines=exp_lines,
                        unmatched=r.unmatched, valid=r.csvpath.is_valid, completed=r.csvpath.completed, bad=bad, tag=f"finished member {ident}: ",
                    )
                    if man is not None and man.get("completed") is not True:
                        bad("a member that finished earlier does not say completed", man.get("completed"), True)
            if ident == "late" and not serial and pos < 3:
                # breadth-first: the run was aborted before this member's only scanned record; it has started and not finished
                if man is not None and man.get("completed") is not False:
                    bad("a started member that never reached its scanned record says completed", man.get("completed"), False)
            if ident == "early" and not serial and pos >= 2:
                # breadth-first: this member's scan ($[0-1]) ended before the record on which another member aborted
                if man is None or man.get("completed") is not True:
                    bad("a member that finished earlier (bounded scan) does not say completed", None if man is None else man.get("completed"), True)
                vs = loaded.get("vars.json") or {}
                if vs.get("s") != ["0", "1"]:
                    bad("a member that finished earlier (bounded scan) lost or changed its variables", vs.get("s"), ["0", "1"])
                meta = loaded.get("meta.json") or {}
                ln = (meta.get("runtime_data") or {}).get("line_number")
                if ln is not None and ln != 1:
                    bad("a member that finished earlier (bounded scan) reports a later line position", ln, 1)
            states.append(run.h64((ident, ident == "ab", pos, method, sorted(os.listdir(mdir)))))
        rmp = os.path.join(rdir, "manifest.json")
        if not os.path.isfile(rmp):
            bad("run manifest missing after abort", None, "present")
        else:
            try:
                rman = refarchive.load_json(rmp)
                if rman.get("status") == "complete":
                    bad("run manifest claims status complete after an abort", rman.get("status"), "not complete")
            except ValueError:
                bad("run manifest not readable", None, "valid json")
        inputs_after = canon.raw_tree(os.path.join(sandbox.root(), "inputs"))
        if inputs_after != inputs_before:
            bad("named-files / named-paths stores changed by the aborted run", "changed", "byte-identical")
        # one further run on the same instance
        aborted_tree = canon.raw_tree(rdir)
        m2 = method
        if case.get("follow") == "cross":
            # the other schedule family: a serial abort followed by a breadth-first run and vice versa
            m2 = "collect_by_line" if method in groups.SERIAL else "collect_paths"
        l2, e2 = groups.run_method(cp, m2, fname="d2")
        if e2 is not None:
            bad("the subsequent run on the same instance raised", f"{type(e2).__name__}: {str(e2)[:100]}", None)
        rd2 = groups.run_dirs()
        new = [r for r in rd2 if r not in rdirs]
        if len(new) != 1:
            bad("the subsequent run did not get its own run directory", [os.path.basename(r) for r in rd2], "one new directory")
        else:
            try:
                rman2 = refarchive.load_json(os.path.join(new[0], "manifest.json"))
                if rman2.get("status") != "complete":
                    bad("the subsequent run's manifest status", rman2.get("status"), "complete")
                if rman2.get("all_completed") is not True:
                    bad("the subsequent run's all_completed", rman2.get("all_completed"), True)
            except (ValueError, OSError) as e:
                bad("the subsequent run's manifest unreadable", str(e)[:60], "valid json")
            got = sorted(d for d in os.listdir(new[0]) if os.path.isdir(os.path.join(new[0], d)))
            if got != sorted(ids):
                bad("the subsequent run's member directories", got, sorted(ids))
        if canon.raw_tree(rdir) != aborted_tree:
            bad("the aborted run's files were modified by the subsequent run", "changed", "byte-identical")
    return {
        "viol": viol,
        "states": states,
        "transitions": gsize * n,
        "nontrivial": abidx > 0 or pos > 0,
        "outcome": run.h64((exc is not None, [v["sig"] for v in viol], len(states))),
        "fingerprint": run.h64((cstr, [v["diverge"] for v in viol])),
    }
