"""C12 - named-paths groups round-trip and select by identity."""
import itertools
import os

from models import refstore

ID = "C12"
RULE = (
    "two families of cases, both executed on the real PathsManager in a clean sandbox and compared with models/refstore.Paths: "
    "(roundtrip) every ordered list of 1..3 distinct csvpath texts from a 16-text alphabet (no comment, id, name, the keys spelled id/Id/ID and name/Name/NAME, identities that start with or contain digits, id+name "
    "precedence, comment after the csvpath, inner comments, newlines/indentation, multi-line outer comment, quoted header) -> "
    "add, get, every name#id and $name.csvpaths.id, every :from/:to; (history) every sequence of <=3 (thorough <=5) operations over "
    "{add(name in 2, list in 5), remove(name in 2), new instance}, with get/#id/:from/:to for every group and manifest length + "
    "last fingerprint == sha256(group file) checked after EVERY operation; non-trivial = some group was replaced or re-added; "
    "state = model store after each operation"
)
BOUNDS = {
    "quick": "3,616 round-trip lists (1..3 of 16 texts) + all 2,379 histories of length<=3 over 13 operations",
    "thorough": "11,536 round-trip lists (1..3 of 16 texts, 4 of the first 11) + all 402,233 histories of length<=5 (the length the quantifier names)",
}
CHUNK = 60
BUDGET = {"quick": 500, "thorough": 3500}
ASSUMPTIONS = [
    "texts are compared after strip() (the statement: equal up to surrounding whitespace)",
    "not asserted: members without an identity addressed by index; a csvpath text containing the separator line",
]

T = [
    ("", "$f[*][yes()]"),
    ("alpha", "~ id: alpha ~ $f[*][yes()]"),
    ("beta", "~ name: beta ~ $f[1*][#0]"),
    ("gamma", "~ id: gamma name: notme ~ $f[*][no()]"),
    ("delta", "$f[*][yes()] ~ id: delta ~"),
    ("eps", "~ id: eps ~ $f[*][ ~ inner comment ~ yes() ]"),
    ("zeta", '~ id: zeta ~\n$f[*][\n    yes()\n    #0 == "a"\n]'),
    ("eta", "~ id: eta\n   description: two line comment with fields\n   owner: me ~ $f[*][yes()]"),
    ("theta", '~ name: theta ~ $f[*][#"a b" == "x"]'),
    ("iota", "~ ID: iota Name: notme2 ~ $f[*][yes()]"),
    ("kappa", "~ NAME: kappa ~ $f[2][yes()]"),
    ("2", "~ id: 2 ~ $f[*][yes()]"),
    ("3rd-check", "~ name: 3rd-check ~ $f[*][#0]"),
    ("b4_x", "~ id: b4_x ~ $f[*][no()]"),
    ("lam", "~ Id: lam ~ $f[*][yes()]"),
    ("mu", "~ Name: mu ~ $f[3][yes()]"),
]
LISTS = [[0], [1, 2], [2, 1], [1, 2, 6], [7]]
NAMES = ["p1", "p2"]


def _ops():
    o = []
    for n in NAMES:
        for li in range(len(LISTS)):
            o.append(["add", n, li])
    for n in NAMES:
        o.append(["remove", n])
    o.append(["new"])
    return o


def cases(tier, seed):
    maxlist = 3 if tier == "quick" else 4
    for k in range(1, maxlist + 1):
        for lst in itertools.permutations(range(len(T) if k <= 3 else 11), k):
            yield {"kind": "roundtrip", "list": list(lst)}
    maxh = 3 if tier == "quick" else 5
    ops = _ops()
    for k in range(1, maxh + 1):
        for h in itertools.product(ops, repeat=k):
            yield {"kind": "history", "ops": [list(o) for o in h]}


def sample(case):
    return case


def _check_group(pm, name, idxs, bad, tag=""):
    texts = [T[i][1] for i in idxs]
    ids = [T[i][0] for i in idxs]

    def get(ref):
        try:
            r = pm.get_named_paths(ref)
            return [x.strip() for x in r] if r is not None else None
        except Exception as e:  # noqa: BLE001
            return f"EXC {type(e).__name__}: {str(e)[:80]}"

    want = [t.strip() for t in texts]
    got = get(name)
    if got != want:
        bad(f"{tag}get_named_paths(name)", got, want)
    for k, i in enumerate(ids):
        if not i:
            continue
        for ref in (f"{name}#{i}", f"${name}.csvpaths.{i}"):
            form = "name#id" if ref[0] != "$" else "$name.csvpaths.id"
            got = get(ref)
            if got != [want[k]]:
                bad(f"{tag}{form}", got, [want[k]])
            got = get(ref + ":from")
            if got != want[k:]:
                bad(f"{tag}{form}:from", got, want[k:])
            got = get(ref + ":to")
            if got != want[: k + 1]:
                bad(f"{tag}{form}:to", got, want[: k + 1])


def _check_manifest(pm, name, model, bad, tag=""):
    import json
    from mcx import canon

    home = os.path.join(pm.named_paths_dir, name)
    mp = os.path.join(home, "manifest.json")
    gp = os.path.join(home, "group.csvpaths")
    if not os.path.isfile(mp) or not os.path.isfile(gp):
        bad(f"{tag}manifest or group file missing", os.listdir(home) if os.path.isdir(home) else None, "both present")
        return
    with open(mp, encoding="utf-8") as f:
        man = json.load(f)
    if len(man) != model.changes.get(name, 0):
        bad(f"{tag}manifest entry count", len(man), model.changes.get(name, 0))
    if man and man[-1].get("fingerprint") != canon.sha_file(gp):
        bad(f"{tag}last manifest fingerprint != sha256(group file)", man[-1].get("fingerprint"), canon.sha_file(gp))


def run_case(case):
    from mcx import run, sandbox
    from csvpath import CsvPaths

    sandbox.reset_dirs("inputs")
    os.makedirs(os.path.join(sandbox.root(), "inputs", "named_paths"), exist_ok=True)
    viol = []
    states = []
    model = refstore.Paths()
    cp = CsvPaths()
    if case["kind"] == "roundtrip":
        cstr = "roundtrip list=" + str([T[i][0] or "-" for i in case["list"]])

        def bad(what, got, want):
            viol.append({"case": cstr, "diverge": f"{what}: got {got} expected {want}", "sig": what})

        texts = [T[i][1] for i in case["list"]]
        try:
            cp.paths_manager.add_named_paths(name="g", paths=list(texts))
        except Exception as e:  # noqa: BLE001
            bad("add_named_paths raised", f"{type(e).__name__}: {e}", None)
        model.add("g", case["list"])
        _check_group(cp.paths_manager, "g", case["list"], bad)
        _check_manifest(cp.paths_manager, "g", model, bad)
        _check_group(CsvPaths().paths_manager, "g", case["list"], bad, "fresh instance: ")
        states.append(run.h64(model.canon()))
        return {"viol": viol, "states": states, "transitions": 1, "nontrivial": len(case["list"]) > 1, "outcome": run.h64(case["list"]), "fingerprint": run.h64((case, [v["diverge"] for v in viol]))}
    cstr = "history " + " ; ".join("(" + ",".join(map(str, o)) + ")" for o in case["ops"])

    def bad(what, got, want):
        viol.append({"case": cstr, "diverge": f"{what}: got {got} expected {want}", "sig": what})

    nontrivial = False
    for op in case["ops"]:
        if op[0] == "add":
            if op[1] in model.groups:
                nontrivial = True
            try:
                cp.paths_manager.add_named_paths(name=op[1], paths=[T[i][1] for i in LISTS[op[2]]])
            except Exception as e:  # noqa: BLE001
                bad("add_named_paths raised", f"{type(e).__name__}: {e}", None)
            model.add(op[1], LISTS[op[2]])
        elif op[0] == "remove":
            try:
                cp.paths_manager.remove_named_paths(op[1])
            except Exception as e:  # noqa: BLE001
                bad("remove_named_paths raised", f"{type(e).__name__}: {e}", None)
            if op[1] in model.groups:
                model.remove(op[1])
        elif op[0] == "new":
            cp = CsvPaths()
        pm = cp.paths_manager
        for nm in NAMES:
            if nm in model.groups:
                _check_group(pm, nm, model.groups[nm], bad)
                _check_manifest(pm, nm, model, bad)
            else:
                if pm.has_named_paths(nm):
                    bad("removed/unknown group still present", True, False)
                try:
                    r = pm.get_named_paths(nm)
                except Exception as e:  # noqa: BLE001
                    r = f"EXC {type(e).__name__}"
                if r is not None:
                    bad("get_named_paths of an unknown group", r, None)
        names = sorted(n for n in pm.named_paths_names)
        if names != sorted(model.groups):
            bad("named_paths_names", names, sorted(model.groups))
        states.append(run.h64(model.canon()))
    return {"viol": viol, "states": states, "transitions": len(case["ops"]), "nontrivial": nontrivial, "outcome": run.h64(model.canon()), "fingerprint": run.h64((case, [v["diverge"] for v in viol]))}
