"""CLI: ./check C07 [--tier quick|thorough] [--replay FILE]"""
import argparse
import importlib
import os
import sys

VERIF = os.path.dirname(os.path.dirname(os.path.abspath(__file__)))
sys.path.insert(0, VERIF)


def _scratch_base():
    """one scratch directory per check run; every sandbox of this run (pool workers, fresh-process re-executions) is created inside it
    and the whole directory is removed when the run ends - pool workers leave through os._exit and cannot clean up after themselves."""
    import atexit
    import shutil
    import tempfile

    if os.environ.get("VERIF_SCRATCH"):
        return
    base = tempfile.mkdtemp(prefix=f"mcx-run-{os.getpid()}-")
    os.environ["VERIF_SCRATCH"] = base
    owner = os.getpid()

    def _rm():
        if os.getpid() == owner:
            try:
                os.chdir("/")
            except OSError:
                pass
            shutil.rmtree(base, ignore_errors=True)

    atexit.register(_rm)


def main():
    _scratch_base()
    ap = argparse.ArgumentParser()
    ap.add_argument("pid")
    ap.add_argument("--tier", default=os.environ.get("VERIF_TIER", "quick"), choices=["quick", "thorough"])
    ap.add_argument("--replay")
    a = ap.parse_args()
    seed = int(os.environ.get("VERIF_SEED", "0") or 0)
    space = importlib.import_module(f"spaces.{a.pid.lower()}")
    from mcx import explore

    # pre-flight: the tree must import, otherwise forked workers would die in their initialiser and the pool would respawn forever
    import subprocess

    repo = os.environ.get("VERIF_REPO", "/repo")
    pf = subprocess.run(
        ["/venv/bin/python", "-c", f"import sys; sys.path.insert(0, {repo!r}); import csvpath, csvpath.csvpaths"],
        capture_output=True, text=True, cwd="/", timeout=120,
    )
    if pf.returncode != 0:
        print(f"HARNESS-ERROR property={a.pid} csvpath does not import from {repo}:\n{pf.stderr[-800:]}")
        sys.exit(2)
    if a.replay:
        sys.exit(explore.replay(space, a.replay))
    if hasattr(space, "main"):
        sys.exit(space.main(a.tier, seed))
    if getattr(space, "MODE", "product") == "bfs":
        sys.exit(explore.explore_bfs(space, a.tier, seed))
    sys.exit(explore.explore(space, a.tier, seed))


if __name__ == "__main__":
    main()
