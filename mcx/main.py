"""CLI: ./check C07 [--tier quick|thorough] [--replay FILE]"""
import argparse
import importlib
import os
import sys

VERIF = os.path.dirname(os.path.dirname(os.path.abspath(__file__)))
sys.path.insert(0, VERIF)


def main():
    ap = argparse.ArgumentParser()
    ap.add_argument("pid")
    ap.add_argument("--tier", default=os.environ.get("VERIF_TIER", "quick"), choices=["quick", "thorough"])
    ap.add_argument("--replay")
    a = ap.parse_args()
    seed = int(os.environ.get("VERIF_SEED", "0") or 0)
    space = importlib.import_module(f"spaces.{a.pid.lower()}")
    from mcx import explore

    if a.replay:
        sys.exit(explore.replay(space, a.replay))
    if hasattr(space, "main"):
        sys.exit(space.main(a.tier, seed))
    if getattr(space, "MODE", "product") == "bfs":
        sys.exit(explore.explore_bfs(space, a.tier, seed))
    sys.exit(explore.explore(space, a.tier, seed))


if __name__ == "__main__":
    main()
