"""known_findings.json matcher. The file is committed and never written at run time.
A violation is suppressed only if BOTH its canonical case string and its canonical divergence string match
an entry (regex search), so a different failure of the same property is still a VIOLATION."""
import json
import os
import re


def load(path):
    if not os.path.exists(path):
        return []
    with open(path, encoding="utf-8") as f:
        doc = json.load(f)
    return doc.get("findings", [])


def match(findings, pid, case, diverge):
    for e in findings:
        if e.get("property") != pid:
            continue
        if re.search(e["case"], case, re.S) and re.search(e["diverge"], diverge, re.S):
            return e
    return None
