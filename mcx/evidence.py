"""evidence/<id>.json writer."""
import json
import os

VERIF = os.path.dirname(os.path.dirname(os.path.abspath(__file__)))


def write(pid, tier, seed, coverage, assumptions, wall, violations, level="model_checking"):
    edir = os.environ.get("VERIF_EVIDENCE_DIR") or os.path.join(VERIF, "evidence")
    os.makedirs(edir, exist_ok=True)
    doc = {
        "property_id": pid,
        "tier": tier,
        "seed": int(seed),
        "level": level,
        "coverage": coverage,
        "assumptions": list(assumptions),
        "wall_s": round(float(wall), 2),
        "violations": int(violations),
    }
    path = os.path.join(edir, f"{pid}.json")
    tmp = path + ".tmp"
    with open(tmp, "w", encoding="utf-8") as f:
        json.dump(doc, f, indent=1, ensure_ascii=False, default=repr)
    os.replace(tmp, path)
    return path
