"""Run one job of a space in THIS fresh interpreter and print its record as JSON (reference twin for C19).
usage: python freshjob.py <space> <job index> [--root DIR]   (with --root the sandbox root is reused and not deleted)"""
import json
import os
import sys

VERIF = os.path.dirname(os.path.dirname(os.path.abspath(__file__)))
sys.path.insert(0, VERIF)


def main():
    space_name, idx = sys.argv[1], int(sys.argv[2])
    root = None
    if "--root" in sys.argv:
        root = sys.argv[sys.argv.index("--root") + 1]
    from mcx import sandbox

    if root:
        os.makedirs(root, exist_ok=True)
        sandbox._ROOT = root
        for d in ("logs", "cache", "archive", "inputs", "data", "config"):
            os.makedirs(os.path.join(root, d), exist_ok=True)
        sandbox.write_config()
        os.chdir(root)
        if sandbox.REPO not in sys.path:
            sys.path.insert(0, sandbox.REPO)
    from mcx import run

    run.boot(memo=False)
    import importlib

    space = importlib.import_module(f"spaces.{space_name}")
    rec = space.run_job(space.JOBS[idx], fresh=True)
    sys.stdout.write("\n@@RECORD@@" + json.dumps(rec, ensure_ascii=False, default=repr) + "\n")


if __name__ == "__main__":
    main()
