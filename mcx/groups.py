"""helpers for named-paths (group) runs on the real CsvPaths."""
import os

from . import sandbox

METHODS = ["collect_paths", "fast_forward_paths", "next_paths", "collect_by_line", "fast_forward_by_line", "next_by_line"]
SERIAL = METHODS[:3]
BYLINE = METHODS[3:]
COLLECTING = {"collect_paths", "next_paths", "collect_by_line", "next_by_line"}


def fresh(policy="collect", clean=("archive", "inputs", "cache"), delimiter=",", quotechar='"'):
    """clean sandbox dirs, write config.ini with the csvpath policy, return a new CsvPaths."""
    from csvpath import CsvPaths

    sandbox.reset_dirs(*clean)
    sandbox.write_config(csvpath_policy=policy, csvpaths_policy="collect")
    return CsvPaths(print_default=False, delimiter=delimiter, quotechar=quotechar)


def register(cp, file_path, paths, name="g", fname="d"):
    cp.file_manager.add_named_file(name=fname, path=file_path)
    cp.paths_manager.add_named_paths(name=name, paths=list(paths))


def run_method(cp, method, name="g", fname="d", **kw):
    """-> (returned lines or None, exception or None)."""
    lines = None
    exc = None
    try:
        with sandbox.capture_stdout():
            if method == "collect_paths":
                cp.collect_paths(pathsname=name, filename=fname)
            elif method == "fast_forward_paths":
                cp.fast_forward_paths(pathsname=name, filename=fname)
            elif method == "next_paths":
                lines = [l[:] for l in cp.next_paths(pathsname=name, filename=fname, collect=True)]
            elif method == "collect_by_line":
                lines = cp.collect_by_line(pathsname=name, filename=fname, **kw)
            elif method == "fast_forward_by_line":
                cp.fast_forward_by_line(pathsname=name, filename=fname, **kw)
            elif method == "next_by_line":
                lines = [l[:] for l in cp.next_by_line(pathsname=name, filename=fname, collect=True, **kw)]
            else:
                raise ValueError(method)
    except Exception as e:  # noqa: BLE001
        exc = e
    return lines, exc


def results_of(cp, name="g"):
    try:
        return list(cp.results_manager.get_named_results(name))
    except Exception:  # noqa: BLE001
        return []


def run_dirs(name="g"):
    p = os.path.join(sandbox.root(), "archive", name)
    if not os.path.isdir(p):
        return []
    return sorted(os.path.join(p, d) for d in os.listdir(p) if os.path.isdir(os.path.join(p, d)))
