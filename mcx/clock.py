"""Virtual clock: a datetime subclass with a settable now(), installed into every csvpath.* module that imported the class.

The library type-checks values ("Must be a datetime") that come back from dateutil, so the fake class has a metaclass whose
__instancecheck__ accepts real datetimes as well.
"""
import datetime as _dt
import sys

_REAL = _dt.datetime


class _Meta(type(_REAL)):
    def __instancecheck__(cls, inst):
        return isinstance(inst, _REAL)


class VDateTime(_REAL, metaclass=_Meta):
    _now = _REAL(2024, 5, 6, 9, 0, 0, tzinfo=_dt.timezone.utc)

    @classmethod
    def now(cls, tz=None):
        n = cls._now
        r = cls(n.year, n.month, n.day, n.hour, n.minute, n.second, n.microsecond, tzinfo=n.tzinfo)
        if tz is not None:
            r = r.astimezone(tz)
            r = cls(r.year, r.month, r.day, r.hour, r.minute, r.second, r.microsecond, tzinfo=r.tzinfo)
        return r

    @classmethod
    def utcnow(cls):
        return cls.now(_dt.timezone.utc).replace(tzinfo=None)


_INSTALLED = []


def install():
    """replace the datetime class, by identity, in every loaded csvpath module. returns number of modules patched."""
    import csvpath  # noqa: F401
    import csvpath.csvpaths  # noqa: F401

    n = 0
    for name, mod in list(sys.modules.items()):
        if not name.startswith("csvpath") or mod is None:
            continue
        d = getattr(mod, "__dict__", {})
        if d.get("datetime") is _REAL:
            d["datetime"] = VDateTime
            _INSTALLED.append(name)
            n += 1
    return n


def set_now(y, mo, d, h, mi, s):
    VDateTime._now = _REAL(y, mo, d, h, mi, s, tzinfo=_dt.timezone.utc)


def set_dt(dt):
    VDateTime._now = dt


def now():
    return VDateTime._now


def advance(seconds):
    VDateTime._now = VDateTime._now + _dt.timedelta(seconds=seconds)
