"""The only module that touches csvpath: boot, run one csvpath, observation records."""
import hashlib
import os
import sys
import warnings

from . import sandbox

_BOOTED = False
_MEMO = True
_LARK_CACHE = {}
_ORIG = {}


def boot(memo=True):
    """import csvpath from the working tree (after sandbox.enter()), install the grammar memoisation."""
    global _BOOTED, _MEMO
    if _BOOTED:
        set_memo(memo)
        return
    sandbox.enter()
    import csvpath  # noqa: F401
    from csvpath.matching.lark_parser import LarkParser
    from csvpath.matching.util.lark_print_parser import LarkPrintParser

    _ORIG["match"] = LarkParser.__init__
    _ORIG["print"] = LarkPrintParser.__init__
    _BOOTED = True
    set_memo(memo)


def set_memo(on):
    """Reuse one Lark object per grammar string (as read from the working tree). Lark parsers keep no
    state between parse() calls; construction is 50 of the 73 ms of a run."""
    global _MEMO
    from lark import Lark
    from csvpath.matching.lark_parser import LarkParser
    from csvpath.matching.util.lark_print_parser import LarkPrintParser

    _MEMO = on
    if not on or not (isinstance(getattr(LarkParser, "GRAMMAR", None), str) and isinstance(getattr(LarkPrintParser, "GRAMMAR", None), str)):
        # memoisation is an optimisation only: a tree whose parsers keep their grammar elsewhere simply runs un-memoised
        LarkParser.__init__ = _ORIG["match"]
        LarkPrintParser.__init__ = _ORIG["print"]
        return

    def _lark(grammar, start):
        k = (grammar, start)
        if k not in _LARK_CACHE:
            _LARK_CACHE[k] = Lark(grammar, start=start, ambiguity="explicit")
        return _LARK_CACHE[k]

    def m_init(self):
        self.parser = _lark(LarkParser.GRAMMAR, "match")
        self.tree = None

    def p_init(self, csvpath=None):
        self.csvpath = csvpath
        self.parser = _lark(LarkPrintParser.GRAMMAR, "printed")
        self.tree = None

    LarkParser.__init__ = m_init
    LarkPrintParser.__init__ = p_init


def h64(obj):
    return hashlib.blake2b(repr(obj).encode("utf-8"), digest_size=8).hexdigest()


def jsonable(v):
    """normalise a value for comparison/printing: tuples -> lists, dict keys kept, exotic -> repr."""
    if isinstance(v, (str, int, float, bool)) or v is None:
        return v
    if isinstance(v, (list, tuple)):
        return [jsonable(x) for x in v]
    if isinstance(v, dict):
        return {(k if isinstance(k, (str, int, float, bool)) or k is None else repr(k)): jsonable(x) for k, x in v.items()}
    return repr(v)


def split_vars(variables):
    """split off the interpreter's private bookkeeping keys (sha-like names)."""
    pub, priv = {}, {}
    for k, v in variables.items():
        ks = str(k)
        if _is_private(ks):
            priv[ks] = jsonable(v)
        else:
            pub[ks] = jsonable(v)
    return pub, priv


def _is_private(k):
    # function-private ids are sha256 hex (64 chars) possibly with a suffix/prefix
    import re

    return re.search(r"[0-9a-f]{40,}", k) is not None


class Obs(dict):
    """observation record of one run."""


def make_config(policy):
    from csvpath.util.config import Config

    cfg = Config()
    if policy is not None:
        cfg.csvpath_errors_policy = list(policy)
    return cfg


def new_path(policy=("collect",), delimiter=",", quotechar='"', printer=True, print_default=False, post_policy=None):
    from csvpath import CsvPath
    from csvpath.util.printer import TestPrinter

    if post_policy is not None:
        # the CsvPath is built from whatever config.ini says and the policy is assigned to its config AFTERWARDS
        p = CsvPath(delimiter=delimiter, quotechar=quotechar, print_default=print_default)
        p.config.csvpath_errors_policy = list(post_policy)
    else:
        cfg = make_config(policy)
        p = CsvPath(config=cfg, delimiter=delimiter, quotechar=quotechar, print_default=print_default)
    tp = None
    if printer:
        tp = TestPrinter()
        p.add_printer(tp)
    return p, tp


def errors_of(p):
    out = []
    for e in p.errors or []:
        out.append((e.line_count, type(e.error).__name__, str(e.error)))
    return out


def observe(p, tp=None, lines=None, exc=None, stdout=None):
    pub, priv = split_vars(p.variables)
    o = Obs()
    o["lines"] = [list(l) for l in lines] if lines is not None else None
    o["unmatched"] = [list(l) for l in p.unmatched] if p.unmatched is not None else None
    o["vars"] = pub
    o["priv"] = priv
    o["scan_count"] = p.scan_count
    o["match_count"] = p.match_count
    o["is_valid"] = p.is_valid
    o["stopped"] = p.stopped
    o["errors"] = errors_of(p)
    o["printouts"] = list(tp.lines) if tp is not None else None
    o["exc"] = (type(exc).__name__, str(exc)[:200]) if exc is not None else None
    try:
        o["last_line"] = p.line_monitor.physical_line_number if p.scanner is not None else None
    except Exception:  # noqa: BLE001
        o["last_line"] = None
    if stdout is not None:
        o["stdout"] = stdout
    return o


def run_csvpath(text, method="collect", policy=("collect",), delimiter=",", quotechar='"', nexts=None, steps=None, print_default=False, post_policy=None):
    """Run one csvpath text (with the file path embedded) on a fresh CsvPath.
    method: collect | next | fast_forward.  nexts: for collect(nexts=n).  steps: for next, stop after n yields.
    """
    p, tp = new_path(policy, delimiter, quotechar, print_default=print_default, post_policy=post_policy)
    lines = None
    kept = []
    exc = None
    with warnings.catch_warnings():
        with sandbox.capture_stdout() as cap:
            try:
                if method == "collect":
                    p.parse(text)
                    if nexts is None:
                        lines = p.collect()
                    else:
                        lines = p.collect(nexts=nexts)
                elif method == "next":
                    p.parse(text)
                    lines = []
                    kept = []  # the very list objects next() handed out (a caller may keep them: list(path.next()))
                    gen = p.next()
                    for l in gen:
                        lines.append(l[:])
                        kept.append(l)
                        if steps is not None and len(lines) >= steps:
                            break
                elif method == "fast_forward":
                    p.parse(text)
                    p.fast_forward()
                else:
                    raise ValueError(method)
            except Exception as e:  # noqa: BLE001
                exc = e
    o = observe(p, tp, lines, exc, cap.text)
    if method == "next":
        o["next_objects_after_the_run"] = [list(l) for l in kept]
    o["metadata"] = jsonable(dict(p.metadata)) if p.metadata else {}
    return o


def diff(a, b, keys=None):
    """list of (key, a, b) where two observation records differ."""
    out = []
    ks = keys if keys is not None else sorted(set(a) | set(b))
    for k in ks:
        if a.get(k) != b.get(k):
            out.append((k, a.get(k), b.get(k)))
    return out
