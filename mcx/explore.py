"""Exhaustive-enumeration driver: feed every case of a space to forked workers, collect measured coverage,
re-check violations in a fresh process, match known findings, write replay + evidence files."""
import json
import multiprocessing as mp
import os
import random
import sys
import time
import traceback

from . import evidence as ev
from . import findings as kf

VERIF = os.path.dirname(os.path.dirname(os.path.abspath(__file__)))
NPROC = int(os.environ.get("VERIF_NPROC", "16"))


REPRO_TMPL = """#!/venv/bin/python
# stand-alone replay of one {pid} violation without the explorer: runs the single recorded case on the current tree
# (VERIF_REPO=<dir> to point at another copy of csvpath). exit 1 + the divergence if the property is violated, else exit 0.
import json, os, sys
sys.path.insert(0, {verif!r})
os.environ.setdefault("PYTHONHASHSEED", "0")
from mcx import run
run.boot(memo=False)
import importlib
space = importlib.import_module("spaces.{space}")
if hasattr(space, "worker_init"):
    space.worker_init()
case = json.loads({case!r})
r = space.{fn}(case)
for v in r.get("viol") or []:
    print("VIOLATED:", v["case"]); print("   ", v["diverge"])
sys.exit(1 if r.get("viol") else 0)
"""


def _write_repro(path_json, pid, name, case, bfs=False):
    try:
        with open(path_json[:-5] + ".py", "w", encoding="utf-8") as f:
            f.write(REPRO_TMPL.format(pid=pid, verif=VERIF, space=name, case=json.dumps(case, ensure_ascii=False), fn="run_history" if bfs else "run_case"))
    except Exception:  # noqa: BLE001
        pass

_SPACE = None


def _init(space_name, memo):
    global _SPACE
    import importlib

    sys.stdout.flush()
    from . import run

    run.boot(memo=memo)
    # a pool worker does not run atexit handlers; multiprocessing's own finalizers are run
    from multiprocessing import util as _mpu

    from . import sandbox as _sb

    _mpu.Finalize(None, _sb.cleanup, exitpriority=10)
    _SPACE = importlib.import_module(f"spaces.{space_name}")
    if hasattr(_SPACE, "worker_init"):
        _SPACE.worker_init()


def _run_chunk(chunk):
    """chunk: list of (index, case). returns aggregate."""
    from . import run

    agg = {
        "evals": 0,
        "transitions": 0,
        "states": set(),
        "nontrivial": set(),
        "outcomes": set(),
        "viol": [],
        "per_case": [],
        "extra": {},
    }
    for idx, case in chunk:
        try:
            r = _SPACE.run_case(case)
        except Exception as e:  # noqa: BLE001  harness error, reported as such
            r = {
                "viol": [
                    {
                        "case": json.dumps(case, ensure_ascii=False, sort_keys=True)[:400],
                        "diverge": "HARNESS-ERROR " + type(e).__name__ + ": " + str(e)[:200],
                        "detail": traceback.format_exc()[-1500:],
                    }
                ],
                "states": [],
                "transitions": 0,
                "nontrivial": False,
                "outcome": "harness-error",
            }
        agg["evals"] += 1
        agg["transitions"] += r.get("transitions", 0)
        agg["states"].update(r.get("states", ()))
        oc = r.get("outcome")
        if oc is not None:
            agg["outcomes"].add(oc if isinstance(oc, str) else run.h64(oc))
        if r.get("nontrivial"):
            agg["nontrivial"].add(run.h64(case))
        for k, v in (r.get("extra") or {}).items():
            agg["extra"][k] = agg["extra"].get(k, 0) + v
        for v in r.get("viol", ()):
            v = dict(v)
            v["index"] = idx
            v["casedata"] = case
            agg["viol"].append(v)
        agg["per_case"].append((idx, r.get("fingerprint", r.get("outcome"))))
    if len(agg["viol"]) > 200:
        agg["viol_dropped"] = len(agg["viol"]) - 200
        agg["viol"] = agg["viol"][:200]
    return agg


def _chunks(it, size):
    buf = []
    for i, c in enumerate(it):
        buf.append((i, c))
        if len(buf) >= size:
            yield buf
            buf = []
    if buf:
        yield buf


def _pool(space_name, memo, n):
    ctx = mp.get_context("fork")
    return ctx.Pool(n, initializer=_init, initargs=(space_name, memo))


def explore(space, tier, seed, chunk_size=None, budget_s=None):
    """returns (exit_code). prints VIOLATION / KNOWN-FINDING lines, writes evidence."""
    t0 = time.time()
    name = space.__name__.split(".")[-1]
    pid = space.ID
    chunk_size = chunk_size or getattr(space, "CHUNK", 40)
    budget_s = budget_s or getattr(space, "BUDGET", {}).get(tier, 3000 if tier == "thorough" else 600)
    if os.environ.get("VERIF_BUDGET"):
        budget_s = float(os.environ["VERIF_BUDGET"])
    case_iter = space.cases(tier, seed)
    all_chunks = list(_chunks(case_iter, chunk_size))
    total_cases = sum(len(c) for c in all_chunks)
    order = list(range(len(all_chunks)))
    random.Random(seed).shuffle(order)

    tot = {
        "evals": 0,
        "transitions": 0,
        "states": set(),
        "nontrivial": set(),
        "outcomes": set(),
        "viol": [],
        "extra": {},
        "viol_dropped": 0,
    }
    fingerprints = {}
    capped = False
    pool = _pool(name, True, NPROC)
    try:
        pending = []
        pos = 0
        maxout = NPROC * 3
        while pos < len(order) or pending:
            while pos < len(order) and len(pending) < maxout:
                if time.time() - t0 > budget_s:
                    capped = True
                    pos = len(order)
                    break
                pending.append(pool.apply_async(_run_chunk, (all_chunks[order[pos]],)))
                pos += 1
            still = []
            progressed = False
            for p in pending:
                if p.ready():
                    agg = p.get()
                    progressed = True
                    tot["evals"] += agg["evals"]
                    tot["transitions"] += agg["transitions"]
                    tot["states"] |= agg["states"]
                    tot["nontrivial"] |= agg["nontrivial"]
                    tot["outcomes"] |= agg["outcomes"]
                    tot["viol"].extend(agg["viol"])
                    tot["viol_dropped"] += agg.get("viol_dropped", 0)
                    for k, v in agg["extra"].items():
                        tot["extra"][k] = tot["extra"].get(k, 0) + v
                    for idx, fp in agg["per_case"]:
                        if idx < 400:
                            fingerprints[idx] = fp
                else:
                    still.append(p)
            pending = still
            if not progressed:
                time.sleep(0.01)
    finally:
        pool.close()
        pool.join()

    # --- self-checks: fresh process, memoisation off, first cases must give identical fingerprints
    recheck_n = min(getattr(space, "RECHECK", 64), total_cases)
    first = []
    for ch in all_chunks:
        for idx, c in ch:
            if idx < recheck_n:
                first.append((idx, c))
        if len(first) >= recheck_n:
            break
    memo_conf = {"cases": 0, "identical": 0}
    nondet = []
    if first and not os.environ.get("VERIF_NO_RECHECK"):
        pool2 = _pool(name, False, min(NPROC, 8))
        try:
            res = pool2.map(_run_chunk, [first[i : i + 8] for i in range(0, len(first), 8)])
        finally:
            pool2.close()
            pool2.join()
        for agg in res:
            for idx, fp in agg["per_case"]:
                if idx not in fingerprints:
                    continue  # the main run was capped before this case was executed
                memo_conf["cases"] += 1
                if fingerprints[idx] == fp:
                    memo_conf["identical"] += 1
                else:
                    nondet.append(idx)

    # --- violations: order simplest-first, one per signature, re-execute in a fresh process
    viols = sorted(tot["viol"], key=lambda v: v["index"])
    by_sig = {}
    for v in viols:
        sig = v.get("sig") or v["diverge"]
        by_sig.setdefault(sig, []).append(v)
    known = kf.load(os.path.join(VERIF, "known_findings.json"))
    report = []  # (kind, v, entry)
    harness_errors = []
    for sig, vs in by_sig.items():
        # a signature is suppressed only if every instance matches a listed finding
        unlisted = None
        matched = {}
        for v in vs:
            e = kf.match(known, pid, v["case"], v["diverge"])
            if e is None:
                if unlisted is None:
                    unlisted = v
            else:
                matched.setdefault(e["id"], (e, v))
        for e, v in matched.values():
            report.append(("known", v, e))
        if unlisted is not None:
            if unlisted["diverge"].startswith("HARNESS-ERROR"):
                harness_errors.append(unlisted)
            report.append(("viol", unlisted, None))

    # re-execute the to-be-reported violations in a fresh process
    to_recheck = [(v["index"], v["casedata"]) for k, v, e in report if k == "viol"][:20]
    if to_recheck:
        pool3 = _pool(name, True, 1)
        try:
            agg = pool3.apply(_run_chunk, (to_recheck,))
        finally:
            pool3.close()
            pool3.join()
        again = {}
        for v in agg["viol"]:
            again.setdefault(v["index"], set()).add(v["diverge"])
        for k, v, e in report:
            if k == "viol" and v["index"] in dict(to_recheck):
                if v["diverge"] not in again.get(v["index"], set()):
                    nondet.append(v["index"])

    os.makedirs(os.path.join(VERIF, "replays"), exist_ok=True)
    nviol = 0
    printed_known = set()
    lines_out = []
    for k, v, e in report:
        if k == "known":
            if e["id"] not in printed_known:
                printed_known.add(e["id"])
                lines_out.append(f"KNOWN-FINDING: property={pid} {e['id']} {e['what']}")
        else:
            nviol += 1
            if nviol <= 20:
                from .run import h64

                sig = h64((v["case"], v["diverge"]))
                path = os.path.join(VERIF, "replays", f"{pid}-{sig}.json")
                with open(path, "w", encoding="utf-8") as f:
                    json.dump(
                        {
                            "property": pid,
                            "space": name,
                            "tier": tier,
                            "case": v["casedata"],
                            "case_str": v["case"],
                            "diverge": v["diverge"],
                            "detail": v.get("detail"),
                        },
                        f,
                        indent=1,
                        ensure_ascii=False,
                        default=repr,
                    )
                _write_repro(path, pid, name, v["casedata"])
                lines_out.append(f"VIOLATION property={pid} replay={path}")
                lines_out.append(f"  case: {v['case'][:300]}")
                lines_out.append(f"  diverge: {v['diverge'][:300]}")
    for l in lines_out:
        print(l)
    if nviol > 20:
        print(f"... {nviol - 20} further distinct violation signatures not listed")
    if nondet:
        print(f"HARNESS-NONDETERMINISM property={pid} cases={sorted(set(nondet))[:10]}")

    # --- evidence
    samples = []
    if total_cases:
        flat_idx = [0, total_cases // 2, total_cases - 1]
        want = set(flat_idx)
        for ch in all_chunks:
            for idx, c in ch:
                if idx in want:
                    samples.append(space.sample(c) if hasattr(space, "sample") else c)
                    want.discard(idx)
    wall = time.time() - t0
    cov = {
        "states": len(tot["states"]),
        "transitions": tot["transitions"],
        "traces_validated_against_impl": tot["evals"],
        "evaluations": tot["evals"],
        "distinct_nontrivial": len(tot["nontrivial"]),
        "rule": space.RULE,
        "samples": samples,
        "exhaustive": (not capped) and tot["evals"] == total_cases,
        "cases_in_space": total_cases,
        "outcomes": len(tot["outcomes"]),
        "bounds": getattr(space, "BOUNDS", {}).get(tier, ""),
        "cap_hit": capped,
        "memo_conformance_and_fresh_process_recheck": memo_conf,
        "violation_signatures": nviol,
        "known_findings_observed": sorted(printed_known),
        "nproc": NPROC,
    }
    cov.update({k: v for k, v in tot["extra"].items()})
    ev.write(
        pid,
        tier,
        seed,
        cov,
        assumptions=getattr(space, "ASSUMPTIONS", []),
        wall=wall,
        violations=nviol,
    )
    print(
        f"[{pid} {tier}] cases={tot['evals']}/{total_cases} states={cov['states']} transitions={cov['transitions']} "
        f"nontrivial={cov['distinct_nontrivial']} outcomes={cov['outcomes']} violations={nviol} known={len(printed_known)} "
        f"capped={capped} recheck={memo_conf['identical']}/{memo_conf['cases']} wall={wall:.1f}s"
    )
    if nviol:
        return 1  # a violation is a violation even when the tree under test also behaves differently from process to process
    return 3 if nondet else 0


def replay(space, path):
    from . import run

    run.boot(memo=False)
    if hasattr(space, "worker_init"):
        space.worker_init()
    with open(path, encoding="utf-8") as f:
        rp = json.load(f)
    if getattr(space, "MODE", "product") == "bfs":
        r = space.run_history(rp["case"])
    else:
        r = space.run_case(rp["case"])
    print(json.dumps({"case": rp["case"], "violations": r.get("viol")}, indent=1, ensure_ascii=False, default=repr))
    if r.get("viol"):
        print(f"VIOLATION property={space.ID} replay={path}")
        return 1
    print("no violation on this tree")
    return 0


# ---------------------------------------------------------------------------------------------------------------
# explicit-state breadth-first search over operation histories (stateless replay on the real code)
# ---------------------------------------------------------------------------------------------------------------


def _run_hist_chunk(chunk):
    out = []
    for hist in chunk:
        try:
            r = _SPACE.run_history(hist)
        except Exception as e:  # noqa: BLE001
            r = {
                "key": "harness-error",
                "disabled": False,
                "viol": [
                    {
                        "case": json.dumps(hist, ensure_ascii=False)[:400],
                        "diverge": "HARNESS-ERROR " + type(e).__name__ + ": " + str(e)[:200],
                        "detail": traceback.format_exc()[-1500:],
                    }
                ],
                "transitions": 0,
            }
        r["hist"] = hist
        out.append(r)
    return out


def explore_bfs(space, tier, seed):
    """Level-synchronous BFS. A state is the event history reaching it; every (state, operation) pair is executed on a
    fresh sandbox by replaying the history through the real API while the reference model is stepped in lock-step;
    the canonical state (model + masked implementation tree) is hashed to de-duplicate; invariants are evaluated on every
    transition, including those that lead to an already-seen state."""
    t0 = time.time()
    name = space.__name__.split(".")[-1]
    pid = space.ID
    depth = space.DEPTH[tier]
    ops = space.ops(tier)
    budget_s = getattr(space, "BUDGET", {}).get(tier, 3000 if tier == "thorough" else 600)
    chunk_size = getattr(space, "CHUNK", 20)
    rnd = random.Random(seed)
    pool = _pool(name, True, NPROC)
    seen = {}
    frontier = [[]]
    transitions = 0
    executed_ops = 0
    disabled = 0
    viols = []
    nontrivial = set()
    per_level = []
    capped = False
    completed_depth = 0
    samples = []
    first_fps = {}
    try:
        init = pool.apply(_run_hist_chunk, ([[]],))[0]
        seen[init["key"]] = []
        for d in range(1, depth + 1):
            tasks = [h + [op] for h in frontier for op in ops]
            rnd.shuffle(tasks)
            chunks = [tasks[i : i + chunk_size] for i in range(0, len(tasks), chunk_size)]
            new_frontier = []
            level_new = 0
            pending = []
            pos = 0
            aborted = False
            while pos < len(chunks) or pending:
                while pos < len(chunks) and len(pending) < NPROC * 3:
                    if time.time() - t0 > budget_s:
                        capped = True
                        aborted = True
                        pos = len(chunks)
                        break
                    pending.append(pool.apply_async(_run_hist_chunk, (chunks[pos],)))
                    pos += 1
                still = []
                prog = False
                for p in pending:
                    if p.ready():
                        prog = True
                        for r in p.get():
                            if r.get("disabled"):
                                disabled += 1
                                continue
                            transitions += 1
                            executed_ops += r.get("transitions", 0)
                            if r.get("nontrivial"):
                                nontrivial.add(r["key"])
                            for v in r.get("viol", ()):
                                v = dict(v)
                                v["casedata"] = r["hist"]
                                v["index"] = (d, json.dumps(r["hist"], sort_keys=True))
                                viols.append(v)
                            if len(first_fps) < 64:
                                first_fps[json.dumps(r["hist"], sort_keys=True)] = (r["hist"], r["key"])
                            if r["key"] not in seen:
                                seen[r["key"]] = r["hist"]
                                new_frontier.append(r["hist"])
                                level_new += 1
                    else:
                        still.append(p)
                pending = still
                if not prog:
                    time.sleep(0.005)
            per_level.append({"depth": d, "transitions": len(tasks), "new_states": level_new})
            if aborted:
                break
            completed_depth = d
            new_frontier.sort(key=lambda h: json.dumps(h, sort_keys=True))
            frontier = new_frontier
            if not frontier:
                break
        # additional, frontier-independent histories (e.g. a wider alphabet to a smaller depth)
        extras = space.extra_histories(tier) if hasattr(space, "extra_histories") and not capped else []
        if extras:
            chunks = [extras[i : i + chunk_size] for i in range(0, len(extras), chunk_size)]
            n_extra = 0
            for rs in pool.imap_unordered(_run_hist_chunk, chunks):
                for r in rs:
                    if r.get("disabled"):
                        disabled += 1
                        continue
                    transitions += 1
                    n_extra += 1
                    executed_ops += r.get("transitions", 0)
                    if r["key"] not in seen:
                        seen[r["key"]] = r["hist"]
                    if r.get("nontrivial"):
                        nontrivial.add(r["key"])
                    for v in r.get("viol", ()):
                        v = dict(v)
                        v["casedata"] = r["hist"]
                        v["index"] = (len(r["hist"]), json.dumps(r["hist"], sort_keys=True))
                        viols.append(v)
            per_level.append({"extra_histories": len(extras), "executed": n_extra})
    finally:
        pool.close()
        pool.join()

    # fresh-process, un-memoised re-execution of a slice: keys must be identical (determinism + replay conformance)
    nondet = []
    recheck = {"cases": 0, "identical": 0}
    if first_fps and not os.environ.get("VERIF_NO_RECHECK"):
        pool2 = _pool(name, False, min(NPROC, 8))
        try:
            hs = [v[0] for v in first_fps.values()]
            res = pool2.map(_run_hist_chunk, [hs[i : i + 8] for i in range(0, len(hs), 8)])
        finally:
            pool2.close()
            pool2.join()
        for rs in res:
            for r in rs:
                recheck["cases"] += 1
                k = json.dumps(r["hist"], sort_keys=True)
                if first_fps[k][1] == r["key"]:
                    recheck["identical"] += 1
                else:
                    nondet.append(k)

    viols.sort(key=lambda v: (v["index"][0], v["index"][1]))
    by_sig = {}
    for v in viols:
        by_sig.setdefault(v.get("sig") or v["diverge"], []).append(v)
    known = kf.load(os.path.join(VERIF, "known_findings.json"))
    nviol = 0
    printed_known = set()
    os.makedirs(os.path.join(VERIF, "replays"), exist_ok=True)
    from .run import h64

    for sig, vs in by_sig.items():
        unlisted = None
        for v in vs:
            e = kf.match(known, pid, v["case"], v["diverge"])
            if e is None:
                unlisted = unlisted or v
            elif e["id"] not in printed_known:
                printed_known.add(e["id"])
                print(f"KNOWN-FINDING: property={pid} {e['id']} {e['what']}")
        if unlisted is not None:
            nviol += 1
            if nviol <= 20:
                v = unlisted
                path = os.path.join(VERIF, "replays", f"{pid}-{h64((v['case'], v['diverge']))}.json")
                with open(path, "w", encoding="utf-8") as f:
                    json.dump(
                        {"property": pid, "space": name, "tier": tier, "case": v["casedata"], "case_str": v["case"], "diverge": v["diverge"], "detail": v.get("detail")},
                        f,
                        indent=1,
                        ensure_ascii=False,
                        default=repr,
                    )
                _write_repro(path, pid, name, v["casedata"], bfs=True)
                print(f"VIOLATION property={pid} replay={path}")
                print(f"  case: {v['case'][:400]}")
                print(f"  diverge: {v['diverge'][:400]}")
    if nondet:
        print(f"HARNESS-NONDETERMINISM property={pid} histories={nondet[:5]}")
    keys = sorted(seen)
    samples = [seen[keys[0]], seen[keys[len(keys) // 2]], seen[keys[-1]]] if keys else []
    wall = time.time() - t0
    cov = {
        "states": len(seen),
        "transitions": transitions,
        "traces_validated_against_impl": transitions,
        "evaluations": transitions,
        "distinct_nontrivial": len(nontrivial),
        "rule": space.RULE,
        "samples": samples,
        "exhaustive": not capped,
        "completed_depth": completed_depth,
        "target_depth": depth,
        "operations_in_alphabet": len(ops),
        "api_operations_executed": executed_ops,
        "disabled_transitions": disabled,
        "per_level": per_level,
        "bounds": getattr(space, "BOUNDS", {}).get(tier, ""),
        "cap_hit": capped,
        "fresh_process_unmemoised_recheck": recheck,
        "violation_signatures": nviol,
        "known_findings_observed": sorted(printed_known),
    }
    ev.write(pid, tier, seed, cov, assumptions=getattr(space, "ASSUMPTIONS", []), wall=wall, violations=nviol)
    print(
        f"[{pid} {tier}] bfs depth={completed_depth}/{depth} states={len(seen)} transitions={transitions} disabled={disabled} "
        f"nontrivial={len(nontrivial)} violations={nviol} known={len(printed_known)} capped={capped} "
        f"recheck={recheck['identical']}/{recheck['cases']} wall={wall:.1f}s"
    )
    if nviol:
        return 1  # a violation is a violation even when the tree under test also behaves differently from process to process
    return 3 if nondet else 0
