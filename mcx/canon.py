"""canonical forms: directory trees with volatile fields (timestamps, uuids, durations) masked."""
import hashlib
import json
import os
import re

VOLATILE_KEYS = {
    "time", "uuid", "uuid_string", "time_completed", "time_started", "run_started_at", "lines_time", "last_line_time",
    "total_iteration_time", "named_file_last_change", "at", "created_at", "time_string", "run_home", "run_uuid",
    "hostname", "ip_address", "username", "rows_time", "last_row_time",
}


def mask(obj, drop=VOLATILE_KEYS):
    if isinstance(obj, dict):
        return {k: mask(v, drop) for k, v in sorted(obj.items()) if k not in drop}
    if isinstance(obj, list):
        return [mask(x, drop) for x in obj]
    return obj


def sha_bytes(b):
    return hashlib.sha256(b).hexdigest()


def sha_file(path):
    with open(path, "rb") as f:
        return sha_bytes(f.read())


def tree(root, json_mask=True, relroot=None):
    """-> sorted list of (relative path, content hash) ; json files are parsed and masked before hashing."""
    out = []
    if not os.path.isdir(root):
        return out
    relroot = relroot or root
    for dp, dns, fns in os.walk(root):
        dns.sort()
        for fn in sorted(fns):
            p = os.path.join(dp, fn)
            rel = os.path.relpath(p, relroot)
            with open(p, "rb") as f:
                b = f.read()
            if json_mask and fn.endswith(".json"):
                try:
                    b = json.dumps(mask(json.loads(b.decode("utf-8"))), sort_keys=True).encode("utf-8")
                except (ValueError, UnicodeDecodeError):
                    pass
            out.append((rel, sha_bytes(b)))
        if not dns and not fns:
            out.append((os.path.relpath(dp, relroot) + "/", ""))
    return out


def raw_tree(root):
    """byte-exact: sorted list of (relative path, sha256 of bytes)."""
    return tree(root, json_mask=False)
