"""Per-process scratch sandbox for driving csvpath.

csvpath resolves config/config.ini, logs/, cache/, archive/ and inputs/ relative to the
current directory, so every worker process gets its own scratch root, writes a private
config.ini WITHOUT a [listeners] section (the shipped one wires OpenLineage listeners to an
unreachable server) and chdirs there before the first csvpath object is created.
"""
import atexit
import io
import os
import shutil
import sys
import tempfile

REPO = os.environ.get("VERIF_REPO", "/repo")

CONFIG_TMPL = """[csvpath_files]
extensions = txt, csvpath, csvpaths

[csv_files]
extensions = txt, csv, tsv, dat, tab, psv, ssv

[errors]
csvpath = {csvpath_policy}
csvpaths = {csvpaths_policy}

[logging]
csvpath = error
csvpaths = error
log_file = logs/csvpath.log
log_files_to_keep = 2
log_file_size = 52428800

[config]
path =

[cache]
path = cache

[functions]
imports = config/functions.imports

[results]
archive = archive
transfers = transfers

[inputs]
files = inputs/named_files
csvpaths = inputs/named_paths
on_unmatched_file_fingerprints = halt
"""

_ROOT = None
_STDOUT = None
_FILE_SEQ = 0


def root():
    return _ROOT


def write_config(csvpath_policy="collect", csvpaths_policy="collect", where=None):
    where = where or _ROOT
    os.makedirs(os.path.join(where, "config"), exist_ok=True)
    if isinstance(csvpath_policy, (list, tuple)):
        csvpath_policy = ", ".join(csvpath_policy)
    if isinstance(csvpaths_policy, (list, tuple)):
        csvpaths_policy = ", ".join(csvpaths_policy)
    with open(os.path.join(where, "config", "config.ini"), "w", encoding="utf-8") as f:
        f.write(
            CONFIG_TMPL.format(
                csvpath_policy=csvpath_policy, csvpaths_policy=csvpaths_policy
            )
        )
    fi = os.path.join(where, "config", "functions.imports")
    if not os.path.exists(fi):
        with open(fi, "w", encoding="utf-8") as f:
            f.write("")


def enter(tag="w"):
    """create the scratch root, chdir into it, make csvpath importable from REPO."""
    global _ROOT
    if _ROOT is not None:
        return _ROOT
    os.environ.pop("CSVPATH_CONFIG_PATH", None)
    base = os.environ.get("VERIF_SCRATCH") or tempfile.gettempdir()
    _ROOT = tempfile.mkdtemp(prefix=f"mcx-{tag}-{os.getpid()}-", dir=base)
    for d in ("logs", "cache", "archive", "inputs", "data"):
        os.makedirs(os.path.join(_ROOT, d), exist_ok=True)
    write_config()
    os.chdir(_ROOT)
    if REPO not in sys.path:
        sys.path.insert(0, REPO)
    atexit.register(cleanup)
    return _ROOT


def cleanup():
    global _ROOT
    if _ROOT and os.path.isdir(_ROOT):
        try:
            os.chdir("/")
        except OSError:
            pass
        shutil.rmtree(_ROOT, ignore_errors=True)
    _ROOT = None


def reset_dirs(*names):
    """empty the given sandbox subdirectories (archive, inputs, cache ...)."""
    for n in names:
        p = os.path.join(_ROOT, n)
        shutil.rmtree(p, ignore_errors=True)
        os.makedirs(p, exist_ok=True)


def new_data_path(ext="csv"):
    """a fresh unique data file path inside the sandbox (the header/line cache is keyed by path)."""
    global _FILE_SEQ
    _FILE_SEQ += 1
    if _FILE_SEQ % 2000 == 0:
        # keep the directory small
        reset_dirs("data")
    return os.path.join(_ROOT, "data", f"f{_FILE_SEQ}.{ext}")


def write_csv(rows, delimiter=",", quotechar='"', path=None, ext="csv"):
    """rows: list of lists of str; an empty list is a blank record (an empty physical line)."""
    import csv

    path = path or new_data_path(ext)
    with open(path, "w", encoding="utf-8", newline="") as f:
        w = csv.writer(f, delimiter=delimiter, quotechar=quotechar, lineterminator="\n")
        for r in rows:
            if len(r) == 0:
                f.write("\n")
            else:
                w.writerow(r)
    return path


def write_text(text, path=None, ext="csv"):
    path = path or new_data_path(ext)
    with open(path, "w", encoding="utf-8", newline="") as f:
        f.write(text)
    return path


class capture_stdout:
    """redirect sys.stdout to a buffer for the duration; .text holds what was printed."""

    def __enter__(self):
        self._old = sys.stdout
        self.buf = io.StringIO()
        sys.stdout = self.buf
        return self

    def __exit__(self, *a):
        sys.stdout = self._old
        self.text = self.buf.getvalue()
        return False
