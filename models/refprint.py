"""print() template expansion (docs/printing.md; property C16).

A template is a list of chunks: ["t", text] or ["r", kind, name, (sub)].  The expected line is the concatenation of every text
chunk (verbatim) and str() of every referenced value current at that point; a ".." chunk DIRECTLY after a reference is the
escape for one literal "."; anywhere else it is two dots.
"""


def render(chunks):
    out = ""
    for c in chunks:
        if c[0] == "t":
            out += c[1]
        else:
            out += ref_text(c)
    return out


def ref_text(c):
    _, kind, name = c[:3]
    sub = c[3] if len(c) > 3 else None
    nm = f"'{name}'" if " " in str(name) else str(name)
    s = f"$.{kind}.{nm}"
    if sub is not None:
        s += f".{sub}"
    return s


def expand(chunks, env):
    """env: dict kind -> lookup function(name, sub) -> value."""
    out = ""
    prev_ref = False
    for c in chunks:
        if c[0] == "t":
            if c[1] == ".." and prev_ref:
                out += "."
            else:
                out += c[1]
            prev_ref = False
        else:
            out += str(env[c[1]](c[2], c[3] if len(c) > 3 else None))
            prev_ref = True
    return out


NAME_TERMINATORS = set(".$ \t\n!^:,;%()-+@#{}[]&<>/|?\"'")


def well_formed(chunks):
    """the only constraints the reference notation itself imposes: the text directly after a reference begins with whitespace, a
    name-terminating punctuation character or '..', or the string ends; a literal '.' after a reference is written '..'."""
    for i, c in enumerate(chunks):
        if c[0] == "r" and i + 1 < len(chunks):
            n = chunks[i + 1]
            if n[0] == "r":
                return False  # two references with nothing between them: the notation has no separator for that
            t = n[1]
            if t == "..":
                continue
            if t[0] == "." or t[0] not in NAME_TERMINATORS:
                return False
    return True
