"""Denotation of scan parts (property C02 statement; docs/paths.md "scanning"):
'*' every line, 'N*' line N to the end, 'N' that line, 'a-b' the inclusive range (a lone range may be written in
either order), '+' the union of its operands; 0-based positions of CSV records; blank records are never offered."""


def render(items):
    """items: list of ('all',) | ('from', n) | ('line', n) | ('range', a, b)."""
    out = []
    for it in items:
        if it[0] == "all":
            out.append("*")
        elif it[0] == "from":
            out.append(f"{it[1]}*")
        elif it[0] == "line":
            out.append(f"{it[1]}")
        elif it[0] == "range":
            out.append(f"{it[1]}-{it[2]}")
        else:
            raise ValueError(it)
    return "+".join(out)


def denote(items, nrecords):
    s = set()
    for it in items:
        if it[0] == "all":
            s |= set(range(nrecords))
        elif it[0] == "from":
            s |= set(range(it[1], nrecords))
        elif it[0] == "line":
            s.add(it[1])
        elif it[0] == "range":
            lo, hi = min(it[1], it[2]), max(it[1], it[2])
            s |= set(range(lo, hi + 1))
    return {i for i in s if 0 <= i < nrecords}


def offered(items, blanks):
    """blanks: list of bool per record (True = blank record). -> sorted list of offered record indexes."""
    n = len(blanks)
    return sorted(i for i in denote(items, n) if not blanks[i])
