"""What the archive must contain after a named-paths run, computed from the in-memory results (properties C09, C18).

archive/<named-paths>/<run>/manifest.json                     status complete, all_valid, all_completed, error_count
archive/<named-paths>/<run>/<identity or index>/meta.json     always
                                               /vars.json      == JSON image of the member's final variables
                                               /errors.json    == the member's collected errors (line, class, message)
                                               /manifest.json  valid, completed, file_fingerprints (== sha256 of the bytes on disk)
                                               /printouts.txt  == printouts in order under '---- PRINTOUT: <name>' headings (iff any)
                                               /data.csv       parses back to exactly the collected lines (iff any were collected)
                                               /unmatched.csv  parses back to exactly the unmatched lines kept (iff any)
"""
import csv
import hashlib
import json
import os

FP_FILES = ["data.csv", "meta.json", "unmatched.csv", "printouts.txt", "errors.json", "vars.json"]


def jimage(v):
    return json.loads(json.dumps(v))


def read_csv(path):
    with open(path, "r", encoding="utf-8", newline="") as f:
        return [row for row in csv.reader(f)]


def sha_file(path):
    with open(path, "rb") as f:
        return hashlib.sha256(f.read()).hexdigest()


def load_json(path):
    with open(path, "r", encoding="utf-8") as f:
        return json.load(f)


def expected_printouts_text(printouts):
    s = ""
    for k, v in printouts.items():
        s += f"---- PRINTOUT: {k}\n"
        for line in v:
            s += f"{line}\n"
    return s


def check_member(mdir, *, variables, errors, printouts, lines, unmatched, valid, completed, bad, tag="", aborted=False, meta_expect=None):
    """compare one member directory with the in-memory truth. `lines` None = not a collecting run (no data.csv expected)."""
    for fn in ("meta.json", "vars.json", "errors.json", "manifest.json"):
        if not os.path.isfile(os.path.join(mdir, fn)):
            bad(f"{tag}{fn} missing", None, "present")
            return
    try:
        meta = load_json(os.path.join(mdir, "meta.json"))
        vs = load_json(os.path.join(mdir, "vars.json"))
        es = load_json(os.path.join(mdir, "errors.json"))
        man = load_json(os.path.join(mdir, "manifest.json"))
    except ValueError as e:
        bad(f"{tag}a json file is not loadable", str(e)[:80], "valid json")
        return
    if meta_expect:
        rt = meta.get("runtime_data") or {}
        for k, want in meta_expect.get("runtime", {}).items():
            if rt.get(k) != want:
                bad(f"{tag}meta.json runtime_data.{k}", rt.get(k), want)
        if "metadata" in meta_expect and meta.get("metadata") != jimage(meta_expect["metadata"]):
            bad(f"{tag}meta.json metadata != the csvpath's metadata", meta.get("metadata"), jimage(meta_expect["metadata"]))
        if "identity" in meta_expect and meta.get("identity") != meta_expect["identity"]:
            bad(f"{tag}meta.json identity", meta.get("identity"), meta_expect["identity"])
    if vs != jimage(variables):
        bad(f"{tag}vars.json != final variables", vs, jimage(variables))
    got_e = [(e.get("line_count"), e.get("error")) for e in es]
    want_e = [(e[0], e[2]) for e in errors]
    if got_e != want_e:
        bad(f"{tag}errors.json != collected errors", got_e, want_e)
    pp = os.path.join(mdir, "printouts.txt")
    has_p = any(len(v) > 0 for v in printouts.values())
    if has_p:
        if not os.path.isfile(pp):
            bad(f"{tag}printouts.txt missing", None, "present")
        else:
            with open(pp, "r", encoding="utf-8") as f:
                txt = f.read()
            if txt != expected_printouts_text(printouts):
                bad(f"{tag}printouts.txt != printouts", txt[:200], expected_printouts_text(printouts)[:200])
    elif os.path.isfile(pp):
        bad(f"{tag}printouts.txt exists without printouts", True, False)
    dp = os.path.join(mdir, "data.csv")
    if lines is not None and len(lines) > 0:
        if not os.path.isfile(dp):
            bad(f"{tag}data.csv missing", None, f"{len(lines)} lines")
        else:
            got = read_csv(dp)
            if got != [list(map(str, l)) for l in lines]:
                bad(f"{tag}data.csv != collected lines", got, lines)
    elif os.path.isfile(dp):
        got = read_csv(dp)
        if got:
            bad(f"{tag}data.csv has lines although none were collected", got, [])
    up = os.path.join(mdir, "unmatched.csv")
    if unmatched:
        if not os.path.isfile(up):
            bad(f"{tag}unmatched.csv missing", None, f"{len(unmatched)} lines")
        else:
            got = read_csv(up)
            if got != [list(map(str, l)) for l in unmatched]:
                bad(f"{tag}unmatched.csv != unmatched lines", got, unmatched)
    elif os.path.isfile(up):
        bad(f"{tag}unmatched.csv exists although no unmatched lines were kept", read_csv(up), [])
    if man.get("valid") != valid:
        bad(f"{tag}member manifest valid", man.get("valid"), valid)
    if man.get("completed") != completed:
        bad(f"{tag}member manifest completed", man.get("completed"), completed)
    fps = man.get("file_fingerprints")
    want_fps = {fn: sha_file(os.path.join(mdir, fn)) for fn in FP_FILES if os.path.isfile(os.path.join(mdir, fn))}
    if fps != want_fps:
        diff = sorted(k for k in set(fps or {}) | set(want_fps) if (fps or {}).get(k) != want_fps.get(k))
        bad(f"{tag}member manifest file_fingerprints != bytes on disk", diff, "equal")
    return meta
