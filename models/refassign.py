"""Assignment decision table for '@x.<qualifiers> = y' (docs/assignment.md, docs/qualifiers.md, property C14).

 * onmatch gates everything on the rest of the line matching ("If the same row doesn't match in other respects, the
   onmatched variable concurs -- it doesn't make the assignment and returns False in the match").
 * notnone "blocks a variable assignment if the value to be assigned is None. In that case the match vote is negative."
 * increase/decrease "block assignment and report False"; "The first value set, when the current value is None, always
   works."
 * latch: set once; later attempts "do nothing ... and return True for matching".
 * onchange: "If a variable with onchange is assigned to a value that it already holds, the match fails".
 * asbool: "the assignment returns True or False in the match according to the value"; "true"/"false" strings.
 * nocontrib: "the assignment is not considered for matching".
ABSENT is None.
"""

QUALS = ["onmatch", "latch", "onchange", "increase", "decrease", "notnone", "asbool", "nocontrib"]


def truth(y):
    if y is None:
        return False
    s = str(y).strip().lower()
    if s == "false":
        return False
    if s == "true":
        return True
    return bool(y)


def step(quals, cur, y, rest_matches, neutral=True):
    """-> (vote, new_cur). vote True = positive."""
    v, n, _ = step3(quals, cur, y, rest_matches, neutral)
    return v, n


def step3(quals, cur, y, rest_matches, neutral=True):
    """-> (vote, new_cur, wrote)."""
    q = set(quals)

    def gate():
        if "notnone" in q and y is None:
            return False, cur, False
        if "increase" in q and (y is None or (cur is not None and not y > cur)):
            return False, cur, False
        if "decrease" in q and (y is None or (cur is not None and not y < cur)):
            return False, cur, False
        return True, y, True

    if "onmatch" in q and not rest_matches:
        vote, new, wrote = False, cur, False
    elif "latch" in q or "onchange" in q:
        if y != cur:
            if cur is None or "latch" not in q:
                vote, new, wrote = gate()
            else:
                vote, new, wrote = True, cur, False
        else:
            vote, new, wrote = (False if "onchange" in q else True), cur, False
    else:
        vote, new, wrote = gate()
    if "asbool" in q and vote is True:
        vote = truth(y)
    if "nocontrib" in q:
        vote = neutral
    return vote, new, wrote
