"""Outer-comment metadata rule (docs/comments.md): "A field is set by putting a colon after a word. The word becomes the field and
everything up to the next coloned word is the value of the field. ... If you want to stop a metadata field but don't want to put
another directly after it, add a stand-alone colon."  Identity precedence id > Id > ID > name > Name > NAME (docs/comments.md)."""
import re

WORD = r"[A-Za-z0-9_\-]+"


def fields(comment):
    """-> dict of the 'key: value' fields a reader of the docs expects."""
    out = {}
    # positions of "word:" and of stand-alone ":"
    marks = []
    for m in re.finditer(rf"({WORD})?:", comment):
        marks.append((m.start(), m.end(), m.group(1)))
    for k, (st, en, word) in enumerate(marks):
        if not word:
            continue
        nxt = marks[k + 1][0] if k + 1 < len(marks) else len(comment)
        out[word] = comment[en:nxt].strip()
    return out


def identity(md):
    for k in ("id", "Id", "ID", "name", "Name", "NAME"):
        if k in md:
            return md[k]
    return ""
