"""Abstract models of the stores (properties C10, C11, C12): a map, a list and a counter."""
import hashlib


def sha(b):
    if isinstance(b, str):
        b = b.encode("utf-8")
    return hashlib.sha256(b).hexdigest()


class Files:
    """named-files area (C11): per name an append-only manifest of (sha256, source file name); a set of stored blobs.
    add(name, source): registers the source file's current bytes; a manifest entry is added iff (sha, source name) differs
    from the last entry. get(name): the last entry's blob. remove(name): forget the name and everything under it."""

    def __init__(self):
        self.names = {}  # name -> {"manifest": [(sha, src)], "blobs": {(src, sha): bytes}}

    def add(self, name, srcname, content):
        h = sha(content)
        n = self.names.setdefault(name, {"manifest": [], "blobs": {}})
        if not n["manifest"] or n["manifest"][-1] != (h, srcname):
            n["manifest"].append((h, srcname))
        n["blobs"][(srcname, h)] = content

    def remove(self, name):
        del self.names[name]

    def current(self, name):
        n = self.names[name]
        h, src = n["manifest"][-1]
        return src, h, n["blobs"][(src, h)]

    def canon(self):
        return sorted((k, tuple(v["manifest"]), tuple(sorted(v["blobs"]))) for k, v in self.names.items())


class Paths:
    """named-paths area (C12): name -> list of csvpath texts; manifest = fingerprints of the stored group file, one per change."""

    def __init__(self):
        self.groups = {}  # name -> list of texts
        self.changes = {}  # name -> number of manifest entries expected

    def add(self, name, texts):
        texts = list(texts)
        if name not in self.groups or self.groups[name] != texts:
            self.changes[name] = self.changes.get(name, 0) + 1
        self.groups[name] = texts

    def remove(self, name):
        del self.groups[name]
        self.changes.pop(name, None)

    def canon(self):
        return sorted((k, tuple(v), self.changes.get(k, 0)) for k, v in self.groups.items())
