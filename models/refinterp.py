"""Reference interpreter for the modelled core of the csvpath match language.

Written from docs/*.md and the property statements (C01, C03, C04, C13), not from the implementation. It evaluates
generated ASTs (JSON lists), so no parser is involved:

  ["h", name|index]                header           #name  #0
  ["v", name] | ["v", name, key]   variable         @x  @x.key
  ["t", value]                     term             "abc"  5  1.5
  ["f", name, [quals], [args]]     function         name.q(args)
  ["==", L, R]                     equality test
  ["=", varnode, [quals], R]       assignment       @x.q = R
  ["->", L, R]                     when/do

Run machine (docs/paths.md, docs/functions/stop.md, advance.md, last.md; property C13):
  for every record of the file, in order:
    blank record: never offered; if it is the final record of the file the last() components fire once, no line returned
    record outside the scan denotation: ignored; the run ends after the scan's final line
    scan_count += 1
    if an advance is pending: it is consumed, the record does not match and causes no side effect
    else components are evaluated left to right; every component is evaluated (no short-circuit between components)
      unless stop() or skip() fired in an earlier component of this record;
      the record matches iff all votes are True (AND) / any vote is True (OR)
    stop fired: nothing after that component is evaluated; the record is returned only if stop was in the final component and
      the record matched; no later record is considered
    skip fired: the record does not match, later components do not run, the next record proceeds normally
A component in which evaluation raises does not match (error policy 'collect').
"""
import math


class CompError(Exception):
    """evaluation of a component raised: the component does not match."""


class Unspecified(Exception):
    """the documentation does not say what happens here (e.g. a string function on an absent value): the line is not asserted."""


class Unmodelled(Exception):
    """the generator produced something the model has no documented rule for (a harness bug)."""


NONE_LIKE = (None,)


def is_none(v):
    return v is None or (isinstance(v, str) and v.strip() == "")


def truth(v):
    """asbool: like bool(x) with 'true'/'false' strings (docs/asbool.md)."""
    if v is None or v is False:
        return False
    if v is True:
        return True
    s = str(v).strip().lower()
    if s == "false":
        return False
    if s == "true":
        return True
    return bool(v)


def to_num(v):
    """number from a cell/term; raises CompError if it is not numeric text."""
    if isinstance(v, bool):
        return int(v)
    if isinstance(v, (int, float)):
        return v
    if v is None:
        raise CompError("None is not a number")
    s = str(v).strip()
    try:
        return int(s)
    except ValueError:
        pass
    try:
        return float(s)
    except ValueError:
        raise CompError(f"not a number: {s!r}")


def is_numlike(v):
    try:
        to_num(v)
        return True
    except CompError:
        return False


# ------------------------------------------------------------------ rendering


def render_term(v):
    if isinstance(v, str) and len(v) > 1 and v.startswith("/") and v.endswith("/"):
        return v
    if isinstance(v, str):
        return '"' + v + '"'
    return repr(v) if not isinstance(v, bool) else str(v)


def render(n):
    k = n[0]
    if k == "h":
        nm = n[1]
        if isinstance(nm, int):
            s = f"#{nm}"
        elif " " in nm:
            s = f'#"{nm}"'
        else:
            s = f"#{nm}"
        if len(n) > 2 and n[2]:
            s += "".join("." + q for q in n[2])
        return s
    if k == "v":
        s = "@" + n[1]
        if len(n) > 2 and n[2] is not None:
            s += "." + str(n[2])
        if len(n) > 3 and n[3]:
            s += "".join("." + q for q in n[3])
        return s
    if k == "t":
        return render_term(n[1])
    if k == "f":
        return n[1] + "".join("." + q for q in n[2]) + "(" + ", ".join(render(a) for a in n[3]) + ")"
    if k == "==":
        return render(n[1]) + " == " + render(n[2])
    if k == "=":
        v = n[1]
        s = "@" + v[1]
        if len(v) > 2 and v[2] is not None:
            s += "." + str(v[2])
        s += "".join("." + q for q in n[2])
        return s + " = " + render(n[3])
    if k == "->":
        return render(n[1]) + " -> " + render(n[2])
    raise Unmodelled(n)


def render_match(comps):
    return "[ " + " ".join(render(c) for c in comps) + " ]"


# ------------------------------------------------------------------ interpreter

KNOWN_QUALS = {"onmatch", "nocontrib", "asbool", "notnone", "latch", "onchange", "increase", "decrease", "once", "distinct"}


class Interp:
    def __init__(self, comps, mode_and=True, policy=("collect",)):
        self.comps = comps
        self.AND = mode_and
        self.policy = set(policy)
        self.vars = {}
        self.scan_count = 0
        self.match_count = 0
        self.valid = True
        self.stopped = False
        self.advance = 0
        self.prints = []
        self.frozen = False
        self.once_done = set()
        self.hidden = {}  # bookkeeping whose variable layout is not asserted (every)
        self.trace = []  # per offered record: dict
        self.errors = []  # (record index, component index)
        self.nrecords = 0
        self.last_fired = 0
        self.control_fired = 0
        self.unknown_lines = set()
        self._counters_ready = False

    # ---------- run machine
    def run(self, rows, offered_set, scan_last, headers=None):
        """rows: list of lists (blank record = []). offered_set: set of record indexes denoted by the scan.
        scan_last: the scan's final line number (None = end of file)."""
        self.rows = rows
        self.nrecords = n = len(rows)
        if headers is None:
            headers = []
            for r in rows:
                if len(r) > 0:
                    headers = [clean_header(c) for c in r]
                    break
        self.headers = headers
        self.scan_last = scan_last
        returned = []
        for i, row in enumerate(rows):
            self.i = i
            self.row = row
            if len(row) == 0:
                if i == n - 1:
                    self._fire_lasts_on_blank_end()
                continue
            if i not in offered_set:
                continue
            self.scan_count += 1
            self.is_scan_last = scan_last is not None and i == scan_last
            if self.advance > 0:
                self.advance -= 1
                matched = False
                self.trace.append({"i": i, "advanced": True})
            else:
                matched = self._match_record()
            if self.is_scan_last:
                self.stopped = True
            if matched:
                self._raise_match_count()
                returned.append(i)
            if self.stopped:
                break
        return returned

    def _raise_match_count(self):
        if self._mc_at_start == self.match_count:
            self.match_count += 1

    def _init_counters(self):
        """docs/functions/counter.md: counters are 'accessible at any point as regular variables' - from the first evaluated record on"""
        if self._counters_ready:
            return
        self._counters_ready = True
        for c in self.comps:
            for node in walk(c):
                if node[0] == "f" and node[1] == "counter":
                    nm = self._name(node[2], None)
                    if nm and nm not in self.vars:
                        self.vars[nm] = 0

    def _match_record(self):
        self._init_counters()
        self._mc_at_start = self.match_count
        self.skip = False
        self.votes = [None] * len(self.comps)
        self.in_progress = set()
        failed = not self.AND
        tr = {"i": self.i}
        for k, c in enumerate(self.comps):
            if self.stopped:
                self.trace.append(tr)
                self._handle_line_errors()
                return False
            if self.skip:
                self.trace.append(tr)
                self._handle_line_errors()
                return False
            v = self._vote_component(k)
            if self.AND:
                if v is False:
                    failed = True
            else:
                if v is True:
                    failed = False
        self.trace.append(tr)
        self._handle_line_errors()
        if self.skip:
            # skip() fired in the final component: the line is not matched (docs/functions/stop.md)
            return False
        return not failed

    def _handle_line_errors(self):
        """errors of a line are handled when the line has been evaluated: 'fail' makes the run invalid, 'stop' stops it (C04, C05)."""
        if any(e[0] == self.i for e in self.errors):
            if "fail" in self.policy:
                self.valid = False
            if "stop" in self.policy:
                self.stopped = True

    def _vote_component(self, k):
        if self.votes[k] is not None:
            return self.votes[k]
        self.cur_comp = k
        self.in_progress.add(k)
        try:
            v = self.match(self.comps[k])
            if v is None:
                v = True
        except CompError:
            self.errors.append((self.i, k))
            v = False
        except Unspecified:
            self.unknown_lines.add(self.i)
            v = False
        self.in_progress.discard(k)
        self.votes[k] = bool(v)
        return self.votes[k]

    def _fire_lasts_on_blank_end(self):
        """the file ends in a blank record: last() components run once, nothing is returned (docs last.md; C13).
        Counters are NOT initialised here: the pass is frozen (no variable writes), so on a file of blank records only a
        counter never becomes a variable (docs/functions/counter.md says nothing about a run that evaluates no record)."""
        self.frozen = True
        self._mc_at_start = self.match_count
        self.votes = [None] * len(self.comps)
        self.in_progress = set()
        self.is_scan_last = False
        self.blank_end = True
        for c in self.comps:
            for node in walk(c):
                if node[0] == "->" and node[1][0] == "f" and node[1][1] == "last":
                    self.last_fired += 1
                    self.frozen = False
                    try:
                        self.match(node[2])
                    except CompError:
                        pass
                    self.frozen = True
        self.blank_end = False

    # ---------- other-components-match (onmatch look-ahead): all OTHER components vote True
    def rest_matches(self, k):
        for j in range(len(self.comps)):
            if j == k or j in self.in_progress:
                continue  # a component in the middle of its own evaluation counts as agreeing
            if self.votes[j] is None:
                save = self.cur_comp
                v = self._vote_component(j)
                self.cur_comp = save
            else:
                v = self.votes[j]
            if not v:
                return False
        self._raise_match_count()
        return True

    # ---------- values
    def value(self, n):
        k = n[0]
        if k == "t":
            return n[1]
        if k == "h":
            v = self.header_value(n[1])
            if len(n) > 2 and n[2] and "asbool" in n[2]:
                return truth(v)
            return v
        if k == "v":
            return self.var_value(n)
        if k == "f":
            return self.fvalue(n)
        if k == "==":
            return self.match(n)
        raise Unmodelled(n)

    def header_value(self, nm):
        if isinstance(nm, int):
            idx = nm
        else:
            idx = self.headers.index(nm) if nm in self.headers else None
        if idx is None or idx >= len(self.row):
            return None
        return self.row[idx].strip()

    def var_value(self, n):
        name = n[1]
        key = n[2] if len(n) > 2 else None
        v = self.vars.get(name)
        if key is not None:
            if isinstance(v, dict):
                if key not in v and key in ("True", "False"):
                    # docs/variables.md: "If you request a variable with a boolean tracking value that looks like @empty.True, the
                    # value will nevertheless be found" (count()/every() keep their bookkeeping under real bools)
                    return v.get(key == "True")
                return v.get(key)
            return None
        return v

    # ---------- votes
    def match(self, n):
        k = n[0]
        if k == "h":
            v = self.header_value(n[1])
            if len(n) > 2 and n[2] and "asbool" in n[2]:
                return truth(v)
            return not is_none(v)
        if k == "v":
            v = self.var_value(n)
            if len(n) > 3 and n[3] and "asbool" in n[3]:
                return truth(v)
            return v is not None
        if k == "t":
            raise Unmodelled("bare term as a component")
        if k == "==":
            a, b = self.value(n[1]), self.value(n[2])
            if is_none(a) or is_none(b):
                raise Unspecified("'==' against an absent or empty value (docs are silent; use empty()/exists())")
            if isinstance(a, float) and math.isnan(a) or isinstance(b, float) and math.isnan(b):
                raise Unspecified("'==' against nan")
            return self.equal(a, b)
        if k == "=":
            return self.assign(n)
        if k == "->":
            return self.when(n)
        if k == "f":
            return self.fmatch(n)
        raise Unmodelled(n)

    @staticmethod
    def equal(a, b):
        return str(a).strip() == str(b).strip() or a == b

    def neutral(self):
        return True if self.AND else False

    def assign(self, n):
        from . import refassign

        var, quals, rhs = n[1], n[2], n[3]
        y = self.value(rhs)
        name = var[1]
        key = var[2] if len(var) > 2 else None
        cur = self.var_value(["v", name, key])
        q = set(quals)
        if not self.AND and q:
            raise Unmodelled("qualified assignment under OR")
        rest = True
        if rhs[0] == "f" and rhs[1] == "count" and not rhs[3] and "onmatch" not in q:
            # docs/functions/count.md: "count() without a contained value only ever increments when the row matches.
            # In that case, onmatch would add nothing."
            quals = list(quals) + ["onmatch"]
            q = set(quals)
        if "onmatch" in q:
            rest = self.rest_matches(self.cur_comp)
        vote, new, wrote = refassign.step3(quals, cur, y, rest, neutral=self.neutral())
        if wrote:
            self.set_var(name, key, new)
        if not self.AND:
            # "A typical assignment doesn't contribute to the match decision for a row": under OR that is False
            return False
        return vote

    def set_var(self, name, key, value):
        if self.frozen:
            return
        if key is not None:
            d = self.vars.get(name)
            if not isinstance(d, dict):
                d = {}
                self.vars[name] = d
            d[key] = value
        else:
            self.vars[name] = value

    def when(self, n):
        left, right = n[1], n[2]
        lm = self.match(left)
        nocontrib = left[0] == "f" and "nocontrib" in left[2]
        if lm:
            is_last = left[0] == "f" and left[1] == "last"
            if is_last:
                was = self.frozen
                self.frozen = False
            self.match(right)
            if is_last:
                self.frozen = was
        if nocontrib:
            return self.neutral()
        return bool(lm)

    # ---------- functions
    def fmatch(self, n):
        name, quals, args = n[1], n[2], n[3]
        fn = getattr(self, "m_" + name, None)
        if fn is None:
            vf = getattr(self, "v_" + name, None)
            if vf is None:
                raise Unmodelled(name)
            raise Unmodelled(f"value producer {name} used as a vote")
        if "onmatch" in quals and name not in ("count",):
            if not self.rest_matches(self.cur_comp):
                return self.neutral()
        return fn(n, quals, args)

    def fvalue(self, n):
        name, quals, args = n[1], n[2], n[3]
        fn = getattr(self, "v_" + name, None)
        if fn is None:
            mf = getattr(self, "m_" + name, None)
            if mf is None:
                raise Unmodelled(name)
            return self.fmatch(n)
        return fn(n, quals, args)

    # boolean
    def m_yes(self, n, q, a):
        return True

    def m_no(self, n, q, a):
        return False

    def m_not(self, n, q, a):
        return not self.match(a[0])

    def m_and(self, n, q, a):
        r = True
        for x in a:
            if not self.match(x):
                r = False
        return r

    def m_or(self, n, q, a):
        r = False
        for x in a:
            if self.match(x):
                r = True
        return r

    # counting / positions
    def v_line_number(self, n, q, a):
        return self.i

    def v_count_lines(self, n, q, a):
        # "count the lines of data to this point in the file" (1-based; blank records are not seen)
        return sum(1 for r in self.rows[: self.i + 1] if len(r) > 0)

    def v_count_scans(self, n, q, a):
        return self.scan_count

    def v_total_lines(self, n, q, a):
        return self.nrecords

    # stack
    def m_push(self, n, q, a):
        name = self.value(a[0])
        v = self.value(a[1])
        if self.frozen:
            return True
        st = self.vars.get(name)
        if st is None:
            st = []
            self.vars[name] = st
        if ("distinct" in q or n[1] == "push_distinct") and v in st:
            return self.neutral()
        if "notnone" in q and is_none(v):
            return self.neutral()
        st.append(v)
        return self.neutral()

    m_push_distinct = m_push

    # print: literal text only in this model (C16 has its own model)
    def m_print(self, n, q, a):
        if "once" in q:
            key = ("once", id(n))
            if key in self.once_done:
                return self.neutral()
            self.once_done.add(key)
        txt = self.value(a[0])
        if getattr(self, "print_hook", False):
            import re as _re

            def _var(m):
                v = self.vars.get(m.group(1))
                if v is None or v == [] or v == {}:
                    return "<UNSET>"
                return str(v)

            txt = _re.sub(r"\$\.variables\.([A-Za-z0-9_]+)", _var, txt)
            if "<UNSET>" in txt:
                txt = "<UNSET>" + txt
            txt = txt.replace("$.csvpath.count_scans", str(self.scan_count)).replace("$.csvpath.line_number", str(self.i))
        self.prints.append(txt)
        return self.neutral()

    # control
    def m_stop(self, n, q, a):
        if len(a) == 0 or self.match(a[0]):
            self.stopped = True
            self.control_fired += 1
        return self.neutral()

    # for the csvpath that executes it stop_all() is a stop() (what it does to the other csvpaths of a run is not modelled)
    m_stop_all = m_stop

    def m_skip(self, n, q, a):
        if len(a) == 0 or self.match(a[0]):
            self.skip = True
            self.control_fired += 1
        return self.neutral()

    def m_advance(self, n, q, a):
        self.advance = int(to_num(self.value(a[0])))
        self.control_fired += 1
        return self.neutral()

    def m_last(self, n, q, a):
        r = (self.i == self.nrecords - 1) or self.is_scan_last
        if r:
            self.last_fired += 1
            if len(a) == 1:
                was = self.frozen
                self.frozen = False
                self.match(a[0])
                self.frozen = was
        if "nocontrib" in q:
            # only meaningful left of '->' (handled in when()); as a bare component the vote stands
            pass
        return r

    # ------------------------------------------------------------------ documented core functions (C01)
    def _present(self, v, what):
        if v is None or (isinstance(v, str) and v.strip() == ""):
            raise Unspecified(f"{what} of an absent/empty value")
        return v

    # comparison: docs/functions/above.md "they implement the > and < operators"; "Comparison ... is attempted in this order: Number,
    # Date, String"; "A number compared with a stringified number is ... no different than a number and a number"; None/nan -> False
    def _cmp(self, a, b):
        if a is None or b is None:
            return None
        if isinstance(a, float) and math.isnan(a) or isinstance(b, float) and math.isnan(b):
            return None
        if is_numlike(a) and is_numlike(b):
            x, y = to_num(a), to_num(b)
            return (x > y) - (x < y)
        # "Comparison by the three types is attempted in this order: Number, Date, String": what is not a pair of numbers (dates are
        # not generated) is compared as stripped strings, an empty cell being the empty string
        x, y = str(a).strip(), str(b).strip()
        return (x > y) - (x < y)

    def m_above(self, n, q, a):
        c = self._cmp(self.value(a[0]), self.value(a[1]))
        return c is not None and c > 0

    m_gt = m_after = m_above

    def m_below(self, n, q, a):
        x, y = self.value(a[0]), self.value(a[1])
        c = self._cmp(x, y)
        if getattr(self, "lt_accepts_equal", False):
            # used ONLY to classify a divergence as the recorded finding KF-C01-1, never as the oracle:
            # "equal operands are accepted", two absent operands being equal too
            return (x is None and y is None) or (c is not None and c <= 0)
        return c is not None and c < 0

    m_lt = m_before = m_below

    # docs/functions/between.md
    def _three(self, a):
        v, x, y = (self.value(z) for z in a)
        present = [t for t in (v, x, y) if t is not None]
        if any(is_none(t) for t in present):
            raise Unspecified("between family against an empty cell")
        if len({is_numlike(t) for t in present}) > 1:
            raise Unspecified("between family across numbers and text (docs/functions/between.md does not give a fallback)")
        if any(isinstance(t, str) and t.strip().lower() != t.strip() for t in present if not is_numlike(t)):
            raise Unspecified("between family on mixed-case text")
        c1, c2 = self._cmp(v, x), self._cmp(v, y)
        if c1 is None or c2 is None:
            return None
        cxy = self._cmp(x, y)
        lo_c, hi_c = (c1, c2) if cxy <= 0 else (c2, c1)   # v vs low bound, v vs high bound
        return lo_c, hi_c

    def m_between(self, n, q, a):
        r = self._three(a)
        return r is not None and r[0] > 0 and r[1] < 0

    m_inside = m_between

    def m_from_to(self, n, q, a):
        r = self._three(a)
        return r is not None and r[0] >= 0 and r[1] <= 0

    m_range = m_from_to

    def m_beyond(self, n, q, a):
        r = self._three(a)
        if r is None:
            return False
        if r[0] == 0 or r[1] == 0:
            raise Unspecified("beyond()/outside() exactly on a bound")
        return r[0] < 0 or r[1] > 0

    m_outside = m_beyond

    # docs/functions/in.md: string Terms are pipe-delimited lists; other arguments are compared by value
    def m_in(self, n, q, a):
        v = self.value(a[0])
        if v is None:
            raise Unspecified("in() of an absent value")
        for x in a[1:]:
            if x[0] == "t" and isinstance(x[1], str):
                items = [i.strip() for i in x[1].split("|")]
                if str(v).strip() in items:
                    return True
            else:
                y = self.value(x)
                if y is None:
                    continue
                if type(y) is not type(v) and not (isinstance(y, str) and isinstance(v, str)):
                    raise Unspecified("in() across types")
                if str(y).strip() == str(v).strip():
                    return True
        return False

    # docs/functions/empty.md
    def m_empty(self, n, q, a):
        v = self.value(a[0])
        if v is None:
            return True
        if isinstance(v, (list, tuple, dict)):
            return len(v) == 0
        return str(v).strip() == ""

    def m_exists(self, n, q, a):
        v = self.value(a[0])
        if v is None:
            return False
        if isinstance(v, float) and math.isnan(v):
            return False
        return str(v).strip() != ""

    # docs/functions/regex.md: regex() "matches within the value"; exact() "True if the regex string is an exact match for the whole of the value"
    def _regex_args(self, a):
        pat, val = a[0], a[1]
        if not (pat[0] == "t" and isinstance(pat[1], str) and pat[1].startswith("/")):
            pat, val = val, pat
        import re as _re

        v = self.value(val)
        if v is None or (isinstance(v, str) and v.strip() == ""):
            raise Unspecified("regex of an absent/empty value")
        return _re.compile(pat[1][1:-1]), str(v)

    def m_regex(self, n, q, a):
        rx, v = self._regex_args(a)
        return rx.search(v) is not None

    def m_exact(self, n, q, a):
        rx, v = self._regex_args(a)
        return rx.fullmatch(v) is not None

    # docs/functions/all.md: "True if all of the values ... contain data"; present = not None and not empty after trimming
    # docs/functions/all.md: all() "True if all headers contain data"; "the number of headers and row columns must be equal. All of
    # the headers must have values in the current row"; present = not the empty string after trimming and not None
    def m_all(self, n, q, a):
        if "onmatch" in q:
            raise Unspecified("all.onmatch")
        if not a or (len(a) == 1 and a[0][0] == "f" and a[0][1] == "headers"):
            return len(self.row) == len(self.headers) and all(not is_none(c) for c in self.row)
        if len(a) == 1 and a[0][0] == "f" and a[0][1] == "variables":
            return all(not is_none(v) for v in self.vars.values())
        return all(not is_none(self.value(x)) for x in a)

    def m_missing(self, n, q, a):
        return not self.m_all(n, q, a)

    # strings (docs/functions/string_functions.md)
    def v_concat(self, n, q, a):
        return "".join(str(self._present(self.value(x), "concat")) for x in a)

    def v_lower(self, n, q, a):
        return str(self._present(self.value(a[0]), "lower")).lower()

    def v_upper(self, n, q, a):
        return str(self._present(self.value(a[0]), "upper")).upper()

    def v_strip(self, n, q, a):
        return str(self._present(self.value(a[0]), "strip")).strip()

    def v_length(self, n, q, a):
        # docs/functions/string_functions.md: length(value) "Same as you would expect": nothing there (an absent header, an unset
        # variable, an empty cell) has length 0
        v = self.value(a[0])
        if is_none(v):
            return 0
        return len(str(v))

    def v_substring(self, n, q, a):
        v = self._present(self.value(a[0]), "substring")
        k = self.value(a[1])
        if not isinstance(k, int) or isinstance(k, bool):
            raise Unspecified("substring() length that is not an int term")
        if k < 0:
            raise CompError("substring(): negatives are not allowed")
        return str(v)[:k]

    def m_starts_with(self, n, q, a):
        x = self._present(self.value(a[0]), "starts_with")
        y = self._present(self.value(a[1]), "starts_with")
        return str(x).strip().startswith(str(y).strip())

    v_starts_with = m_starts_with

    # docs/functions/string_functions.md: min_length()/max_length() "return True if the stringified value is more than or less
    # than the integer provided". Whether a length exactly equal to the integer passes is not said: not asserted.
    def _minmax_length(self, n, q, a, want_longer):
        v = self._present(self.value(a[0]), n[1])
        k = int(self.value(a[1]))
        ln = len(str(v))
        if ln == k:
            raise Unspecified(f"{n[1]} at exactly the bound")
        return (ln > k) if want_longer else (ln < k)

    def m_min_length(self, n, q, a):
        return self._minmax_length(n, q, a, True)

    def m_max_length(self, n, q, a):
        return self._minmax_length(n, q, a, False)

    # math: divide "will return nan when divide by 0 is attempted"; mod "upcasts to float and rounds to the hundredths"
    def v_divide(self, n, q, a):
        ns = self._nums_strict(a)
        r = ns[0]
        for x in ns[1:]:
            if x == 0 or (isinstance(r, float) and math.isnan(r)):
                r = float("nan")
            else:
                r = r / x
        return r

    def v_mod(self, n, q, a):
        ns = self._nums_strict(a)
        if ns[1] == 0:
            raise CompError("modulo by zero")
        return round(ns[0] % ns[1], 2)

    def _nums_strict(self, a):
        out = []
        for x in a:
            v = self.value(x)
            if is_none(v):
                raise Unspecified("divide/mod of an absent value")
            out.append(float(to_num(v)))
        return out

    def v_int(self, n, q, a):
        v = self.value(a[0])
        if is_none(v):
            return 0
        x = to_num(v)
        if isinstance(x, float) and x != int(x):
            raise Unspecified("int() of a non-integral number")
        return int(x)

    def m_int(self, n, q, a):
        self.v_int(n, q, a)
        return True

    def v_float(self, n, q, a):
        v = self.value(a[0])
        if is_none(v):
            return 0.0
        return float(to_num(v))

    def m_float(self, n, q, a):
        self.v_float(n, q, a)
        return True

    # counting (docs/functions/count.md): bare count() = matches seen so far, counting the current line as a match
    def v_count(self, n, q, a):
        if a:
            return self._count_value(n, q, a)
        return self.match_count_now() + 1

    def match_count_now(self):
        return self._mc_at_start

    def m_count(self, n, q, a):
        if a:
            self._count_value(n, q, a)
        return self.neutral()

    # ------------------------------------------------------------------ variables and aggregates (C03)
    @staticmethod
    def _name(q, default):
        for x in q:
            if x not in KNOWN_QUALS:
                return x
        return default

    def _gate_onmatch(self, q):
        return "onmatch" not in q or self.rest_matches(self.cur_comp)

    def _argname(self, x):
        if x[0] == "h":
            return str(x[1])
        if x[0] == "v":
            return x[1]
        if x[0] == "f":
            return x[1]
        raise Unmodelled(x)

    def _tracked(self, x, what):
        v = self.value(x)
        if v is None or (isinstance(v, str) and v.strip() == ""):
            raise Unspecified(f"{what} of an absent/empty value")
        return v

    def _bump(self, name, key, by=1):
        if self.frozen:
            return
        d = self.vars.get(name)
        if not isinstance(d, dict):
            d = {}
            self.vars[name] = d
        d[key] = d.get(key, 0) + by

    # docs/functions/any.md: any() "True if any header or variable would return a value"; any(headers()) / any(variables());
    # any(value) "True if the value can be found in any header or variable"; any(headers(), value) / any(variables(), value)
    def _cells_with_value(self):
        return [c for c in self.row if c is not None and str(c).strip() != ""]

    def _vars_with_value(self):
        out = []
        for v in self.vars.values():
            if v is None:
                continue
            if isinstance(v, (list, tuple, dict)) and len(v) == 0:
                raise Unspecified("any() over an empty container variable")
            if isinstance(v, str) and v.strip() == "":
                raise Unspecified("any() over a blank string variable")
            out.append(v)
        return out

    def _found(self, value, pool):
        if value is None:
            raise Unspecified("any() looking for an absent value")
        hit = False
        for x in pool:
            if str(x) == str(value):
                hit = True
            elif str(x).strip() == str(value).strip() or (is_numlike(x) and is_numlike(value) and float(x) == float(value)):
                raise Unspecified("any(): equal only up to whitespace or number formatting")
        return hit

    def m_any(self, n, q, a):
        if "onmatch" in q:
            raise Unspecified("any.onmatch")
        kinds = [x[1] if x[0] == "f" and x[1] in ("headers", "variables") else None for x in a]
        if len(a) == 0:
            return bool(self._cells_with_value()) or bool(self._vars_with_value())
        if len(a) == 1:
            if kinds[0] == "headers":
                return bool(self._cells_with_value())
            if kinds[0] == "variables":
                return bool(self._vars_with_value())
            v = self.value(a[0])
            return self._found(v, list(self.row)) or self._found(v, list(self.vars.values()))
        v = self.value(a[1])
        if kinds[0] == "headers":
            return self._found(v, list(self.row))
        if kinds[0] == "variables":
            return self._found(v, list(self.vars.values()))
        raise Unmodelled("any() with two arguments needs headers() or variables() first")

    # docs/functions/count_headers.md: "count_headers() returns the number of headers in the headers row";
    # "count_headers_in_line() counts the number of headers in the current row"
    def v_count_headers(self, n, q, a):
        return len(self.headers)

    def v_count_headers_in_line(self, n, q, a):
        return len(self.row)

    # docs/functions/every.md: "Matches every N times a value is seen". The per-value sighting counts are kept under a
    # private key here: the doc's text (<name>_every / <name>) and its pinned test (<name>) disagree about the variable layout,
    # so callers do not assert every()'s variables, only its vote.
    def m_every(self, n, q, a):
        name = "\x00every:" + (self._name(q, None) or str(id(n)))
        x = a[0]
        if x[0] == "==" or (x[0] == "f" and hasattr(self, "m_" + x[1]) and not hasattr(self, "v_" + x[1])):
            key = bool(self.match(x))
        else:
            key = self._tracked(x, "every")
        step = self.value(a[1])
        d = self.hidden.setdefault(name, {})
        if not self.frozen:
            d[key] = d.get(key, 0) + 1
        return d.get(key, 0) % int(step) == 0

    # docs/functions/tally.md
    def m_tally(self, n, q, a):
        if not self._gate_onmatch(q):
            return self.neutral()
        base = self._name(q, "tally")
        vals = [str(self._tracked(x, "tally")) for x in a]
        for x, v in zip(a, vals):
            self._bump(f"{base}_{self._argname(x)}", v)
        if len(a) > 1:
            self._bump(base, "|".join(vals))
        return True

    # docs/functions/sum.md
    def m_sum(self, n, q, a):
        if not self._gate_onmatch(q):
            return self.neutral()
        name = self._name(q, "sum")
        v = self._tracked(a[0], "sum")
        x = float(to_num(v))
        if not self.frozen:
            self.vars[name] = (self.vars.get(name) or 0) + x
        return self.neutral()

    # sum() used as a value: the running summation (docs/functions/sum.md "keeps a running summation"); with onmatch on a line that
    # does not match nothing is added and the value is the unchanged running total
    def v_sum(self, n, q, a):
        name = self._name(q, "sum")
        if "onmatch" in q:
            v0 = self.value(a[0])
            if is_none(v0) or not is_numlike(v0):
                # docs/functions/sum.md does not say whether a value that cannot be summed is an error when the onmatch gate may keep
                # the function from summing at all: not asserted
                raise Unspecified("sum.onmatch used as a value with an argument that is not a number")
        if not self._gate_onmatch(q):
            if name not in self.vars:
                raise Unspecified("value of sum.onmatch before anything was summed")
            return self.vars[name]
        v = self._tracked(a[0], "sum")
        x = float(to_num(v))
        if not self.frozen:
            self.vars[name] = (self.vars.get(name) or 0) + x
        return self.vars.get(name)

    # docs/functions/subtotal.md
    def m_subtotal(self, n, q, a):
        if not self._gate_onmatch(q):
            return self.neutral()
        name = self._name(q, "subtotal")
        cat = str(self._tracked(a[0], "subtotal"))
        x = float(to_num(self._tracked(a[1], "subtotal")))
        self._bump(name, cat, x)
        return self.neutral()

    # docs/functions/counter.md
    def m_counter(self, n, q, a):
        name = self._name(q, None)
        if name is None:
            raise Unmodelled("unnamed counter")
        by = 1
        if a:
            by = int(to_num(self.value(a[0])))
        if not self.frozen:
            self.vars[name] = (self.vars.get(name) or 0) + by
        return self.neutral()

    # docs/functions/first.md: "Matches the first time a value is seen. A variable tracks the first line numbers for each value."
    def m_first(self, n, q, a):
        if not self._gate_onmatch(q):
            return self.neutral()
        name = self._name(q, "first")
        key = "".join(str(self._tracked(x, "first")) for x in a).strip()
        d = self.vars.get(name)
        if isinstance(d, dict) and key in d:
            return False
        if not self.frozen:
            if not isinstance(d, dict):
                d = {}
                self.vars[name] = d
            d[key] = self.i
        return True

    # docs/functions/count.md: count(value) "stores the value-integer pairs in a variable under a key identifying the count function"
    def _count_value(self, n, q, a):
        name = self._name(q, None)
        if name is None:
            raise Unmodelled("unnamed count(value)")
        x = a[0]
        if x[0] in ("==",) or (x[0] == "f" and hasattr(self, "m_" + x[1]) and not hasattr(self, "v_" + x[1])):
            key = bool(self.match(x))
            matched = key
        else:
            key = self._tracked(x, "count")
            matched = True
        if "onmatch" in q and not matched:
            d = self.vars.get(name) or {}
            return d.get(key, 0)
        self._bump(name, key)
        return self.vars[name][key] if not self.frozen else 0

    # docs/functions/pop.md
    def v_pop(self, n, q, a):
        name = self.value(a[0])
        st = self.vars.get(name)
        if not st:
            return None
        v = st[-1]
        if not self.frozen:
            self.vars[name] = st[:-1]
        return v

    def v_peek(self, n, q, a):
        name = self.value(a[0])
        i = int(to_num(self.value(a[1])))
        st = self.vars.get(name) or []
        return st[i] if 0 <= i < len(st) else None

    def v_peek_size(self, n, q, a):
        return len(self.vars.get(self.value(a[0])) or [])

    v_size = v_peek_size

    # validity
    def m_fail(self, n, q, a):
        self.valid = False
        return self.neutral()

    def m_fail_and_stop(self, n, q, a):
        if len(a) == 0 or self.match(a[0]):
            self.stopped = True
            self.valid = False
        return self.neutral()

    def m_fail_all(self, n, q, a):
        self.valid = False
        return self.neutral()

    # math (docs/functions/subtract.md: "Numbers are upcast to floats before the operations"; None counts as 0)
    def _nums(self, a):
        out = []
        for x in a:
            v = self.value(x)
            if is_none(v):
                raise Unspecified("arithmetic on an absent/empty value")
            out.append(float(to_num(v)))
        return out

    def v_add(self, n, q, a):
        # docs/functions/sum.md presents '@notsum = add(@notsum, #0)' as equivalent to sum(#0): an unset operand counts as 0
        tot = 0.0
        for x in a:
            v = self.value(x)
            if v is None:
                continue
            if is_none(v):
                raise Unspecified("add() of an empty cell")
            tot += float(to_num(v))
        return tot

    def v_subtract(self, n, q, a):
        ns = self._nums(a)
        if len(ns) == 1:
            return -ns[0]
        r = ns[0]
        for x in ns[1:]:
            r -= x
        return r

    v_minus = v_subtract

    def v_multiply(self, n, q, a):
        r = 1.0
        for x in self._nums(a):
            r *= x
        return r

    def m_valid(self, n, q, a):
        return self.valid

    def m_failed(self, n, q, a):
        return not self.valid


def clean_header(c):
    c = c.strip()
    for ch in ";,|\t`":
        c = c.replace(ch, "")
    return c


def walk(n):
    yield n
    k = n[0]
    if k == "f":
        for a in n[3]:
            yield from walk(a)
    elif k in ("==", "->"):
        yield from walk(n[1])
        yield from walk(n[2])
    elif k == "=":
        yield from walk(n[3])
