"""Reference interpreter for the modelled core of the csvpath match language.

Written from docs/*.md and the property statements (C01, C03, C04, C13), not from the implementation. It evaluates
generated ASTs (JSON lists), so no parser is involved:

  ["h", name|index]                header           #name  #0
  ["v", name] | ["v", name, key]   variable         @x  @x.key
  ["t", value]                     term             "abc"  5  1.5
  ["f", name, [quals], [args]]     function         name.q(args)
  ["==", L, R]                     equality test
  ["=", varnode, [quals], R]       assignment       @x.q = R
  ["->", L, R]                     when/do

Run machine (docs/paths.md, docs/functions/stop.md, advance.md, last.md; property C13):
  for every record of the file, in order:
    blank record: never offered; if it is the final record of the file the last() components fire once, no line returned
    record outside the scan denotation: ignored; the run ends after the scan's final line
    scan_count += 1
    if an advance is pending: it is consumed, the record does not match and causes no side effect
    else components are evaluated left to right; every component is evaluated (no short-circuit between components)
      unless stop() or skip() fired in an earlier component of this record;
      the record matches iff all votes are True (AND) / any vote is True (OR)
    stop fired: nothing after that component is evaluated; the record is returned only if stop was in the final component and
      the record matched; no later record is considered
    skip fired: the record does not match, later components do not run, the next record proceeds normally
A component in which evaluation raises does not match (error policy 'collect').
"""
import math


class CompError(Exception):
    """evaluation of a component raised: the component does not match."""


class Unmodelled(Exception):
    """the generator produced something the model has no documented rule for (a harness bug)."""


NONE_LIKE = (None,)


def is_none(v):
    return v is None or (isinstance(v, str) and v.strip() == "")


def truth(v):
    """asbool: like bool(x) with 'true'/'false' strings (docs/asbool.md)."""
    if v is None or v is False:
        return False
    if v is True:
        return True
    s = str(v).strip().lower()
    if s == "false":
        return False
    if s == "true":
        return True
    return bool(v)


def to_num(v):
    """number from a cell/term; raises CompError if it is not numeric text."""
    if isinstance(v, bool):
        return int(v)
    if isinstance(v, (int, float)):
        return v
    if v is None:
        raise CompError("None is not a number")
    s = str(v).strip()
    try:
        return int(s)
    except ValueError:
        pass
    try:
        return float(s)
    except ValueError:
        raise CompError(f"not a number: {s!r}")


def is_numlike(v):
    try:
        to_num(v)
        return True
    except CompError:
        return False


# ------------------------------------------------------------------ rendering


def render_term(v):
    if isinstance(v, str):
        return '"' + v + '"'
    return repr(v) if not isinstance(v, bool) else str(v)


def render(n):
    k = n[0]
    if k == "h":
        nm = n[1]
        if isinstance(nm, int):
            s = f"#{nm}"
        elif " " in nm:
            s = f'#"{nm}"'
        else:
            s = f"#{nm}"
        if len(n) > 2 and n[2]:
            s += "".join("." + q for q in n[2])
        return s
    if k == "v":
        s = "@" + n[1]
        if len(n) > 2 and n[2] is not None:
            s += "." + str(n[2])
        if len(n) > 3 and n[3]:
            s += "".join("." + q for q in n[3])
        return s
    if k == "t":
        return render_term(n[1])
    if k == "f":
        return n[1] + "".join("." + q for q in n[2]) + "(" + ", ".join(render(a) for a in n[3]) + ")"
    if k == "==":
        return render(n[1]) + " == " + render(n[2])
    if k == "=":
        v = n[1]
        s = "@" + v[1]
        if len(v) > 2 and v[2] is not None:
            s += "." + str(v[2])
        s += "".join("." + q for q in n[2])
        return s + " = " + render(n[3])
    if k == "->":
        return render(n[1]) + " -> " + render(n[2])
    raise Unmodelled(n)


def render_match(comps):
    return "[ " + " ".join(render(c) for c in comps) + " ]"


# ------------------------------------------------------------------ interpreter

KNOWN_QUALS = {"onmatch", "nocontrib", "asbool", "notnone", "latch", "onchange", "increase", "decrease", "once", "distinct"}


class Interp:
    def __init__(self, comps, mode_and=True, policy=("collect",)):
        self.comps = comps
        self.AND = mode_and
        self.policy = set(policy)
        self.vars = {}
        self.scan_count = 0
        self.match_count = 0
        self.valid = True
        self.stopped = False
        self.advance = 0
        self.prints = []
        self.frozen = False
        self.once_done = set()
        self.trace = []  # per offered record: dict
        self.errors = []  # (record index, component index)
        self.nrecords = 0
        self.last_fired = 0
        self.control_fired = 0

    # ---------- run machine
    def run(self, rows, offered_set, scan_last, headers=None):
        """rows: list of lists (blank record = []). offered_set: set of record indexes denoted by the scan.
        scan_last: the scan's final line number (None = end of file)."""
        self.rows = rows
        self.nrecords = n = len(rows)
        if headers is None:
            headers = []
            for r in rows:
                if len(r) > 0:
                    headers = [clean_header(c) for c in r]
                    break
        self.headers = headers
        self.scan_last = scan_last
        returned = []
        for i, row in enumerate(rows):
            self.i = i
            self.row = row
            if len(row) == 0:
                if i == n - 1:
                    self._fire_lasts_on_blank_end()
                continue
            if i not in offered_set:
                continue
            self.scan_count += 1
            self.is_scan_last = scan_last is not None and i == scan_last
            if self.advance > 0:
                self.advance -= 1
                matched = False
                self.trace.append({"i": i, "advanced": True})
            else:
                matched = self._match_record()
            if self.is_scan_last:
                self.stopped = True
            if matched:
                self._raise_match_count()
                returned.append(i)
            if self.stopped:
                break
        return returned

    def _raise_match_count(self):
        if self._mc_at_start == self.match_count:
            self.match_count += 1

    def _match_record(self):
        self._mc_at_start = self.match_count
        self.skip = False
        self.votes = [None] * len(self.comps)
        self.evaluating = set()
        failed = not self.AND
        tr = {"i": self.i}
        for k, c in enumerate(self.comps):
            if self.stopped:
                self.trace.append(tr)
                self._handle_line_errors()
                return False
            if self.skip:
                self.trace.append(tr)
                self._handle_line_errors()
                return False
            v = self._vote_component(k)
            if self.AND:
                if v is False:
                    failed = True
            else:
                if v is True:
                    failed = False
        self.trace.append(tr)
        self._handle_line_errors()
        if self.skip:
            # skip() fired in the final component: the line is not matched (docs/functions/stop.md)
            return False
        return not failed

    def _handle_line_errors(self):
        """errors of a line are handled when the line has been evaluated: 'fail' makes the run invalid, 'stop' stops it (C04, C05)."""
        if any(e[0] == self.i for e in self.errors):
            if "fail" in self.policy:
                self.valid = False
            if "stop" in self.policy:
                self.stopped = True

    def _vote_component(self, k):
        if self.votes[k] is not None:
            return self.votes[k]
        self.cur_comp = k
        try:
            v = self.match(self.comps[k])
            if v is None:
                v = True
        except CompError:
            self.errors.append((self.i, k))
            v = False
        self.votes[k] = bool(v)
        return self.votes[k]

    def _fire_lasts_on_blank_end(self):
        """the file ends in a blank record: last() components run once, nothing is returned (docs last.md; C13)."""
        self.frozen = True
        self._mc_at_start = self.match_count
        self.votes = [None] * len(self.comps)
        self.is_scan_last = False
        self.blank_end = True
        for c in self.comps:
            for node in walk(c):
                if node[0] == "->" and node[1][0] == "f" and node[1][1] == "last":
                    self.last_fired += 1
                    self.frozen = False
                    try:
                        self.match(node[2])
                    except CompError:
                        pass
                    self.frozen = True
        self.blank_end = False

    # ---------- other-components-match (onmatch look-ahead): all OTHER components vote True
    def rest_matches(self, k):
        for j in range(len(self.comps)):
            if j == k:
                continue
            if self.votes[j] is None:
                save = self.cur_comp
                v = self._vote_component(j)
                self.cur_comp = save
            else:
                v = self.votes[j]
            if not v:
                return False
        self._raise_match_count()
        return True

    # ---------- values
    def value(self, n):
        k = n[0]
        if k == "t":
            return n[1]
        if k == "h":
            v = self.header_value(n[1])
            if len(n) > 2 and n[2] and "asbool" in n[2]:
                return truth(v)
            return v
        if k == "v":
            return self.var_value(n)
        if k == "f":
            return self.fvalue(n)
        if k == "==":
            return self.match(n)
        raise Unmodelled(n)

    def header_value(self, nm):
        if isinstance(nm, int):
            idx = nm
        else:
            idx = self.headers.index(nm) if nm in self.headers else None
        if idx is None or idx >= len(self.row):
            return None
        return self.row[idx].strip()

    def var_value(self, n):
        name = n[1]
        key = n[2] if len(n) > 2 else None
        v = self.vars.get(name)
        if key is not None:
            if isinstance(v, dict):
                return v.get(key)
            return None
        return v

    # ---------- votes
    def match(self, n):
        k = n[0]
        if k == "h":
            v = self.header_value(n[1])
            if len(n) > 2 and n[2] and "asbool" in n[2]:
                return truth(v)
            return not is_none(v)
        if k == "v":
            v = self.var_value(n)
            if len(n) > 3 and n[3] and "asbool" in n[3]:
                return truth(v)
            return v is not None
        if k == "t":
            raise Unmodelled("bare term as a component")
        if k == "==":
            return self.equal(self.value(n[1]), self.value(n[2]))
        if k == "=":
            return self.assign(n)
        if k == "->":
            return self.when(n)
        if k == "f":
            return self.fmatch(n)
        raise Unmodelled(n)

    @staticmethod
    def equal(a, b):
        return str(a).strip() == str(b).strip() or a == b

    def neutral(self):
        return True if self.AND else False

    def assign(self, n):
        from . import refassign

        var, quals, rhs = n[1], n[2], n[3]
        y = self.value(rhs)
        name = var[1]
        key = var[2] if len(var) > 2 else None
        cur = self.var_value(["v", name, key])
        q = set(quals)
        if not self.AND and q:
            raise Unmodelled("qualified assignment under OR")
        rest = True
        if "onmatch" in q:
            rest = self.rest_matches(self.cur_comp)
        vote, new = refassign.step(quals, cur, y, rest, neutral=self.neutral())
        if new != cur or (new is not None and type(new) is not type(cur)):
            self.set_var(name, key, new)
        if not self.AND:
            # "A typical assignment doesn't contribute to the match decision for a row": under OR that is False
            return False
        return vote

    def set_var(self, name, key, value):
        if self.frozen:
            return
        if key is not None:
            d = self.vars.get(name)
            if not isinstance(d, dict):
                d = {}
                self.vars[name] = d
            d[key] = value
        else:
            self.vars[name] = value

    def when(self, n):
        left, right = n[1], n[2]
        lm = self.match(left)
        nocontrib = left[0] == "f" and "nocontrib" in left[2]
        if lm:
            is_last = left[0] == "f" and left[1] == "last"
            if is_last:
                was = self.frozen
                self.frozen = False
            self.match(right)
            if is_last:
                self.frozen = was
        if nocontrib:
            return self.neutral()
        return bool(lm)

    # ---------- functions
    def fmatch(self, n):
        name, quals, args = n[1], n[2], n[3]
        fn = getattr(self, "m_" + name, None)
        if fn is None:
            vf = getattr(self, "v_" + name, None)
            if vf is None:
                raise Unmodelled(name)
            raise Unmodelled(f"value producer {name} used as a vote")
        if "onmatch" in quals and name not in ("count",):
            if not self.rest_matches(self.cur_comp):
                return self.neutral()
        return fn(n, quals, args)

    def fvalue(self, n):
        name, quals, args = n[1], n[2], n[3]
        fn = getattr(self, "v_" + name, None)
        if fn is None:
            mf = getattr(self, "m_" + name, None)
            if mf is None:
                raise Unmodelled(name)
            return self.fmatch(n)
        return fn(n, quals, args)

    # boolean
    def m_yes(self, n, q, a):
        return True

    def m_no(self, n, q, a):
        return False

    def m_not(self, n, q, a):
        return not self.match(a[0])

    def m_and(self, n, q, a):
        r = True
        for x in a:
            if not self.match(x):
                r = False
        return r

    def m_or(self, n, q, a):
        r = False
        for x in a:
            if self.match(x):
                r = True
        return r

    # counting / positions
    def v_line_number(self, n, q, a):
        return self.i

    def v_count_lines(self, n, q, a):
        # "count the lines of data to this point in the file" (1-based; blank records are not seen)
        return sum(1 for r in self.rows[: self.i + 1] if len(r) > 0)

    def v_count_scans(self, n, q, a):
        return self.scan_count

    def v_total_lines(self, n, q, a):
        return self.nrecords

    # stack
    def m_push(self, n, q, a):
        name = self.value(a[0])
        v = self.value(a[1])
        if self.frozen:
            return True
        st = self.vars.get(name)
        if st is None:
            st = []
            self.vars[name] = st
        if ("distinct" in q or n[1] == "push_distinct") and v in st:
            return self.neutral()
        if "notnone" in q and is_none(v):
            return self.neutral()
        st.append(v)
        return self.neutral()

    m_push_distinct = m_push

    # print: literal text only in this model (C16 has its own model)
    def m_print(self, n, q, a):
        if "once" in q:
            key = ("once", id(n))
            if key in self.once_done:
                return self.neutral()
            self.once_done.add(key)
        self.prints.append(self.value(a[0]))
        return self.neutral()

    # control
    def m_stop(self, n, q, a):
        if len(a) == 0 or self.match(a[0]):
            self.stopped = True
            self.control_fired += 1
        return self.neutral()

    def m_skip(self, n, q, a):
        if len(a) == 0 or self.match(a[0]):
            self.skip = True
            self.control_fired += 1
        return self.neutral()

    def m_advance(self, n, q, a):
        self.advance = int(to_num(self.value(a[0])))
        self.control_fired += 1
        return self.neutral()

    def m_last(self, n, q, a):
        r = (self.i == self.nrecords - 1) or self.is_scan_last
        if r:
            self.last_fired += 1
            if len(a) == 1:
                was = self.frozen
                self.frozen = False
                self.match(a[0])
                self.frozen = was
        if "nocontrib" in q:
            # only meaningful left of '->' (handled in when()); as a bare component the vote stands
            pass
        return r

    # validity
    def m_fail(self, n, q, a):
        self.valid = False
        return self.neutral()

    def m_fail_and_stop(self, n, q, a):
        if len(a) == 0 or self.match(a[0]):
            self.stopped = True
            self.valid = False
        return self.neutral()

    def m_fail_all(self, n, q, a):
        self.valid = False
        return self.neutral()

    # math (docs/functions/subtract.md: "Numbers are upcast to floats before the operations"; None counts as 0)
    def _nums(self, a):
        out = []
        for x in a:
            v = self.value(x)
            if is_none(v):
                v = 0
            out.append(float(to_num(v)))
        return out

    def v_add(self, n, q, a):
        return float(sum(self._nums(a)))

    def v_subtract(self, n, q, a):
        ns = self._nums(a)
        if len(ns) == 1:
            return -ns[0]
        r = ns[0]
        for x in ns[1:]:
            r -= x
        return r

    v_minus = v_subtract

    def v_multiply(self, n, q, a):
        r = 1.0
        for x in self._nums(a):
            r *= x
        return r

    def m_valid(self, n, q, a):
        return self.valid

    def m_failed(self, n, q, a):
        return not self.valid


def clean_header(c):
    c = c.strip()
    for ch in ";,|\t`":
        c = c.replace(ch, "")
    return c


def walk(n):
    yield n
    k = n[0]
    if k == "f":
        for a in n[3]:
            yield from walk(a)
    elif k in ("==", "->"):
        yield from walk(n[1])
        yield from walk(n[2])
    elif k == "=":
        yield from walk(n[3])
