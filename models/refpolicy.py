"""Error-policy outcome function (property C05; docs/config.md 'errors', docs/comments.md validation-mode).

For each erroring record, in file order, under policy P (subset of raise, collect, stop, fail, print, quiet) and a
validation-mode override V (list of flags among raise/no-raise, stop/no-stop, fail/no-fail, print/no-print, match/no-match;
an override replaces the corresponding policy flag for that csvpath only):
  - the line does not match unless V says match
  - the exception reaches the caller iff raise        (run ends there)
  - an error record with the line number is collected iff collect
  - is_valid becomes False iff fail
  - the run stops at that line iff stop               (no later record is evaluated or returned)
  - the message goes to the printers iff print
  - quiet changes logging only
"""


def effective(policy, override):
    eff = {k: (k in policy) for k in ("raise", "collect", "stop", "fail", "print")}
    eff["match"] = False
    for f in override:
        if f.startswith("no-"):
            eff[f[3:]] = False
        else:
            eff[f] = True
    return eff


def outcome(policy, override, bad, nrecords):
    """bad: sorted list of erroring record indexes. -> dict of expected observations."""
    eff = effective(policy, override)
    handled = []
    evaluated_upto = nrecords - 1
    raised = False
    for L in bad:
        handled.append(L)
        if eff["raise"]:
            raised = True
            evaluated_upto = L
            break
        if eff["stop"]:
            evaluated_upto = L
            break
    evaluated = list(range(0, evaluated_upto + 1)) if nrecords else []
    returned = [i for i in evaluated if (i not in bad) or (eff["match"] and i in handled)]
    return {
        "raised": raised,
        "handled": handled,
        "evaluated": evaluated,
        "returned": None if raised else returned,
        "error_lines": handled if eff["collect"] else [],
        "is_valid": not (eff["fail"] and handled),
        "printed": bool(eff["print"] and handled),
        "eff": eff,
    }
