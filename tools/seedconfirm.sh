#!/bin/sh
# tools/seedconfirm.sh <agent worktree> <name> : confirm a seeded change on top of /repo's current main:
# demo fails with it, passes without, pinned suite still green; store under /verif/seeded/<name>/
WT="$1"; NAME="$2"
OUT=/verif/seeded/$NAME
mkdir -p "$OUT"
cd "$WT" || exit 2
if [ ! -s "$OUT/patch.diff" ]; then git diff -- csvpath > "$OUT/patch.diff"; fi
[ -f seeded/demo.py ] && cp seeded/demo.py "$OUT/demo.py"
[ -f seeded/notes.md ] && cp seeded/notes.md "$OUT/notes.md"
# put the worktree on the current main with exactly the patch applied
git checkout -q -f --detach main && git apply "$OUT/patch.diff" || { echo "patch does not apply on main"; exit 2; }
mkdir -p seeded && cp "$OUT/demo.py" seeded/demo.py
/venv/bin/python seeded/demo.py > /tmp/seed_$NAME.with.log 2>&1; W=$?
git apply -R "$OUT/patch.diff"
/venv/bin/python seeded/demo.py > /tmp/seed_$NAME.without.log 2>&1; WO=$?
git apply "$OUT/patch.diff"
echo "demo with change exit=$W ; without change exit=$WO"
rm -rf archive cache inputs logs/*.log 2>/dev/null
/venv/bin/python -m pytest -q -p no:cacheprovider --timeout=900 --continue-on-collection-errors --junitxml=/tmp/seed_$NAME.junit.xml tests > /tmp/seed_$NAME.tests.log 2>&1
git diff --quiet -- csvpath && echo "WARNING: no change applied during the suite run"
/venv/bin/python - "$NAME" "$W" "$WO" <<'PY'
import json, sys, subprocess, xml.etree.ElementTree as ET
name, w, wo = sys.argv[1], int(sys.argv[2]), int(sys.argv[3])
base = json.load(open('/root/.vp/BASELINE.json'))
stable = set(base['stable_pass'])
passed = set()
for tc in ET.parse(f'/tmp/seed_{name}.junit.xml').getroot().iter('testcase'):
    ok = not any(ch.tag in ('failure','error','skipped') for ch in tc)
    if ok:
        passed.add(f"{tc.get('classname')}::{tc.get('name')}")
missing = sorted(stable - passed)
head = subprocess.check_output(['git','-C','/repo','rev-parse','--short','main']).decode().strip()
res = {"base_commit": head, "demo_exit_with_change": w, "demo_exit_without_change": wo, "pinned_suite_passed": len(stable & passed), "pinned_suite_total": len(stable), "pinned_tests_broken": missing}
json.dump(res, open(f'/verif/seeded/{name}/confirm.json','w'), indent=1)
print(name, res)
PY
