#!/venv/bin/python
"""Regenerate MANIFEST.json from the table below; properties without an entry go to not_applicable."""
import json
import os

VERIF = os.path.dirname(os.path.dirname(os.path.abspath(__file__)))

CHECKS = {
    "C01": {
        "text": "P1 every modelled function x argument shapes as a single component (and under not()) on a file whose data records are all pairs over "
        "a 13-cell alphabet plus ragged and blank records; P2 all ordered pairs (thorough: triples) from a 24-component interaction "
        "alphabet in both logic modes over files of <=3 records; P3 boolean nests to depth 3 (4); P4 the pairs under 6 scan windows; P5 orderings of 4-6 independent components; and()/or() with 2-5 arguments - "
        "the real collect() against models/refinterp.py, line by line.",
        "design": "3 / C01",
        "note": "trusted: models/refinterp.py (written from docs/ with citations); lines on which the docs are silent are marked unknown by the model and not asserted (counted in the evidence)",
        "technique": "bounded exhaustive enumeration of generated programs x files x modes on the real interpreter against a lock-step reference interpreter",
    },
    "C03": {
        "text": "All ordered pairs (thorough: triples over a subset) of 30 writer components (assignments, tracking keys, arithmetic on the previous value, "
        "tally/sum/subtotal/counter/first/count(value) with names and onmatch, push/pop/peek/peek_size, the four position counters) with a "
        "filter in no/first/last position x files of <=3 records x 3 scan windows: final variables, scan_count, match_count, returned "
        "lines and a per-line print of count_scans/line_number against models/refinterp.py.",
        "design": "3 / C03",
        "note": "trusted: models/refinterp.py; only named bookkeeping variables are compared; every()'s variables and aggregates of absent values are not asserted",
        "technique": "bounded exhaustive enumeration of writer programs x files x windows on the real interpreter against a lock-step reference interpreter",
    },
    "C04": {
        "text": "16 fail-family contexts (executing and non-executing positions, conditions that error) and three error programs under all 8 subsets of {fail, collect, stop} x "
        "every file of <=3 (thorough 4) records over 5 row kinds, compared with the run machine in models/refinterp.py on the final verdict, "
        "valid() at the start and failed() at the end of every line, and monotonicity; plus every ordered group of 1-2 (3) members from 5 "
        "member kinds x files incl. the empty file x six run methods: results_manager.is_valid, run manifest all_valid and member manifests "
        "valid against the conjunction of the members' verdicts.",
        "design": "3 / C04",
        "note": "trusted: models/refinterp.py; for erroring lines only the verdict seen by later lines and the final verdict are asserted",
        "technique": "bounded exhaustive enumeration of programs x files x policies and of groups x run methods on the real code against a reference interpreter",
    },
    "C15": {
        "text": "Every outer comment of <=3 (thorough 4) chunks over 9 chunk kinds (free text, fields with punctuation, stand-alone colons, id/name "
        "fields) in 3 placements: all generated fields must be in metadata (reference rule in models/refmeta.py), identity precedence must "
        "hold and the run must equal the run without the comment; and for 10 programs x 12 (40) files all 32 joint settings of the five "
        "modes with the pairwise relations of the statement (complement, no-run, no-default, partition).",
        "design": "3 / C15",
        "note": "trusted: models/refmeta.py (from docs/comments.md); relations need no expected values; not asserted: values containing 'word:'",
        "technique": "bounded exhaustive enumeration of comments and of all 32 mode vectors on the real code with relational oracles",
    },
    "C17": {
        "text": "Every function name the factory knows x arity 0..3 x 7 qualifier sets (up to four qualifiers), every component kind, boolean nests to depth 3 (thorough 4) and "
        "1..3-component programs; every layout with <=1/2 deviating gaps (no space where tokens cannot merge, newline, tab, inner "
        "comment between components): no _ambig node in the raw Lark tree, structural dump of the component tree equals the generated "
        "AST for every layout, outer comment changes nothing, run results identical across layouts.",
        "design": "3 / C17",
        "note": "trusted: the generator's AST and the structural dumper; arity validity not asserted",
        "technique": "bounded exhaustive enumeration of ASTs x deviation-bounded layouts on the real parser and transformer against the generated AST",
    },
    "C20": {
        "text": "Every chain of 2..3 (thorough 4) filters from a 6-filter alphabet with source-mode preceding on every suffix x files x two spooling "
        "methods against a composition model (member i == standalone p_i on member i-1's lines; manifests name the actual input); "
        "every history of 1..3 (4) runs of a two-member group over three files x three methods with a probe csvpath reading "
        "$g.variables.v[.key] and $h.headers.name; results references used as file names replay the referenced data.csv, also when feeding a source-mode preceding chain; chains under three non-default dialects.",
        "design": "3 / C20",
        "note": "trusted: the composition model (standalone runs on files written from the model's lines); not asserted: a predecessor that collected nothing",
        "technique": "bounded exhaustive enumeration of chains and run histories on the real CsvPaths against a composition model",
    },
    "C06": {
        "text": "Three exhaustively enumerated families with csv.writer's input as ground truth: every single-record file of 0..3 cells over a "
        "17-cell hostile alphabet (incl. backslashes) under 8 dialects; every 2-record (thorough 3) file incl. blank records under 8 dialects (an "
        "unbalanced quote must not swallow the next record); every header row of 1..3 names x every data-row length, comparing '#name' "
        "and '#index' and requiring a short row to read as absent. Thorough adds delivery through CsvPaths serial and breadth-first.",
        "design": "3 / C06",
        "note": "trusted: csv.writer as producer; cell alphabet of 17 strings (no CR); header cleaning rule from the statement",
        "technique": "bounded exhaustive enumeration of files x dialects on the real reader and header addressing against the written rows",
    },
    "C16": {
        "text": "Every well-formed print template of <=3 (thorough 4) chunks over 10 text chunks and 6 (12) reference forms x files x the three "
        "qualifier forms, executed as a real csvpath and compared entry by entry with the chunk-wise expansion in models/refprint.py.",
        "design": "3 / C16",
        "note": "trusted: models/refprint.py; not asserted: references to missing values, adjacent references without any separating character",
        "technique": "bounded exhaustive enumeration of print templates on the real print parser against a chunk-expansion model",
    },
    "C08": {
        "text": "Every ordered group of 1-2 (thorough 3) members from a 12-member alphabet x files of <=3 records x the six run methods (and "
        "if_all_agree): every member's lines, variables incl. private keys, printouts, validity and counters must equal a standalone "
        "CsvPath run; the caller's lines of a breadth-first run must be the per-record union/intersection of the members' decisions.",
        "design": "3 / C08",
        "note": "differential oracle (standalone run is the reference); members avoid cross-path signals, references and line rewriting",
        "technique": "bounded exhaustive differential exploration of both schedules (path-major, line-major) and all group orders on the real code",
    },
    "C19": {
        "text": "26 jobs touching every process-global/on-disk shared thing (incl. append() and count_headers() on one shared CsvPaths instance); each job's reference record is produced by running it first in its own "
        "fresh interpreter; every ordered pair (and triples over a subset; thorough: all triples, 4-sequences) is then run in a long-lived "
        "process and every record compared with its fresh twin; CsvPaths jobs are re-run in a second fresh process that inherits the "
        "first one's cache directory.",
        "design": "3 / C19",
        "note": "differential oracle against fresh processes; compares lines, variables, printouts, headers, error (line, class), verdict, counters",
        "technique": "exhaustive enumeration of job histories in one process, each job differentially checked against a fresh-process run",
    },
    "C18": {
        "text": "Fault enumeration of every (member index, record index) abort point: groups of 1-3 (thorough 4) members with the aborting member at "
        "every index, two error kinds, 'raise' configured by validation-mode comment or by config policy, files of 2-4 (8) records, all "
        "six run methods; after the exception escapes the archive is checked against the statement (readable files, aborting error with "
        "line number, completed false, earlier members complete per the C09 model, run manifest not complete, stores byte-identical) and "
        "one further run on the same instance (same method, and a method of the other schedule family) must archive normally into a new directory.",
        "design": "3 / C18",
        "note": "trusted: models/refarchive.py; policies contain 'collect'; known finding KF-C18-1 (abort on the file's final record says completed true)",
        "technique": "exhaustive fault-position enumeration (every abort point x run method) on the real run methods with archive invariants and a follow-up run",
    },
    "C09": {
        "text": "Every ordered group of 1-2 (thorough 3) members from a 12-member alphabet (variables, tracking dicts, stacks, printers to default and "
        "named streams, fail, stop, errors under collect, unmatched-mode keep, return-mode no-matches, with/without ids) x 7 (10) files with "
        "quotes, delimiters, embedded newlines, non-ASCII, blank records and the empty file x all six run methods, each on a fresh instance; "
        "the archive tree is compared file by file with models/refarchive.py computed from the in-memory results.",
        "design": "3 / C09",
        "note": "trusted: models/refarchive.py; collected lines taken from a standalone run of the member; timestamps/uuids not compared",
        "technique": "bounded exhaustive enumeration of groups x files x run methods on the real archive writer against a reference archive model",
    },
    "C10": {
        "text": "Explicit-state breadth-first search over run histories: {g1, g2, g1 addressed as g1#two} x {new instance, reused instance} x {run method} x {same second, "
        "next instant, skip} over a ladder of virtual instants crossing 12:59:59->13:00:00 and midnight; depth 3 plus all same-second chains of 4-5 runs (thorough 4, plus all six "
        "run methods to depth 2). After every run: exactly one new run directory under the run's own group, all earlier runs "
        "byte-identical, names sort chronologically, :last/:first resolve to the extreme run for three prefix kinds.",
        "design": "3 / C10",
        "note": "trusted: the virtual clock (datetime replaced in the 13 csvpath modules that import it); canonical-state merge argument in DESIGN.md",
        "technique": "explicit-state BFS over run histories under a virtual clock on the real CsvPaths, invariants on every transition",
    },
    "C11": {
        "text": "Explicit-state breadth-first search over operation histories {write source, add_named_file, remove, new instance} (13 operations, "
        "2 names x 2 source files x 3 contents) to depth 5 (thorough 7) on the real FileManager, models/refstore.Files stepped in "
        "lock-step; all store invariants of the statement are evaluated after every operation and from a fresh instance; "
        "canonical states (model + masked tree) de-duplicated.",
        "design": "3 / C11",
        "note": "trusted: models/refstore.Files (a dict and a list); canonical-state merge argument in DESIGN.md; local filesystem only (no S3)",
        "technique": "explicit-state BFS over operation histories replayed on the real store against an abstract model, invariants on every transition",
    },
    "C12": {
        "text": "Every ordered list of 1..3 (thorough 4) distinct texts from an 11-text alphabet round-tripped through add/get/#id/$ref/:from/:to, and "
        "every operation sequence of length <=3 (thorough 4) over {add 5 lists x 2 names, remove, new instance} with all lookups and "
        "manifest growth/fingerprint checked after every step, on the real PathsManager against models/refstore.Paths.",
        "design": "3 / C12",
        "note": "trusted: models/refstore.Paths; identities are known by construction of the alphabet; texts compared after strip()",
        "technique": "exhaustive enumeration of program lists and operation sequences on the real store against an abstract model",
    },
    "C13": {
        "text": "Every position of one control component (11 forms of stop/skip/advance/last) among 1-2 (thorough: 1-3) side-effecting "
        "marker components x every file of <=4 (5) records over {firing, non-firing, blank} x scan windows, run on the real "
        "interpreter and compared with the run machine in models/refinterp.py: returned lines, every marker stack, printouts, "
        "scan_count, match_count.",
        "design": "3 / C13",
        "note": "trusted: models/refinterp.py run machine (from docs/functions/stop.md, advance.md, last.md and the statement); not asserted: scan's final line being blank",
        "technique": "bounded exhaustive enumeration of programs x files x scan windows on the real interpreter against a lock-step reference interpreter",
    },
    "C07": {
        "text": "For every generated csvpath (control programs, singles and ordered pairs of 20 writer/print/fail/skip components, both return modes and unmatched-mode keep) "
        "x every file of <=3 (4) records x scan windows: collect(), next() and fast_forward() on fresh instances must leave identical "
        "observation records, and for every n in 1..matches+1 collect(nexts=n) must equal a next() generator advanced n yields.",
        "design": "3 / C07",
        "note": "differential oracle, no reference model; trusted: the harness's observation record (variables incl. private keys, counters, validity, stopped, errors, printouts)",
        "technique": "bounded exhaustive differential exploration of the three run methods and every prefix length n on the real code",
    },
    "C14": {
        "text": "All 256 subsets of the eight assignment qualifiers x all value sequences the property names x rest-of-line matching or not, "
        "each executed as a real csvpath over a 3-record file and compared with the 25-line decision table in models/refassign.py "
        "(vote via returned lines, x before every line via a first-position push, final x). The quick tier already covers the whole "
        "space the property states.",
        "design": "3 / C14",
        "note": "trusted: models/refassign.py (transcribed from docs/assignment.md and docs/qualifiers.md); AND mode; values are header strings",
        "technique": "exhaustive enumeration of the full qualifier x value-history space on the real interpreter against a decision-table model",
    },
    "C05": {
        "text": "Every non-empty subset of the six policy flags x every single validation-mode override x five error kinds x every position of "
        "zero, one or two erroring records (deviation-bounded fault enumeration: 0, 1, 2 faults), policy injected through a Config "
        "object and through config.ini; outcome compared with models/refpolicy.py on six observables.",
        "design": "3 / C05",
        "note": "trusted: models/refpolicy.py (from the property statement); the five error kinds are representatives; error-record multiplicity not asserted",
        "technique": "exhaustive fault-position x configuration enumeration on the real error handler against an outcome-function model",
    },
    "C02": {
        "text": "Every scan string of the stated shapes with every bound 0..N+2 over every file of N<=5 (thorough: <=10) "
        "records with every blank pattern is run on the real CsvPath and compared with the denotation in models/refscan.py "
        "(returned lines, scan_count, match_count, per-line line_number markers). Exhaustive within the bounds.",
        "design": "3 / C02",
        "note": "trusted: models/refscan.py (25 lines, from the property statement); csv.writer as file producer; bounds N<=10, '+'-lists <=4 items",
        "technique": "bounded exhaustive enumeration of scan strings x files on the real code against a reference denotation",
    },
}

ENGINE = {
    "name": "mcx",
    "path": "/verif/mcx",
    "kind_free_text": "hand-written explicit-state / bounded-exhaustive explorer for Python: enumerates a finite space "
    "(programs x inputs x configurations, operation histories, fault positions) completely, runs every element on the real "
    "csvpath code in sandboxed worker processes and compares with a lock-step reference model",
}


PENDING = set()  # property ids whose check exists but is not registered yet


def main():
    props = []
    with open(os.path.join(VERIF, "properties.jsonl"), encoding="utf-8") as f:
        for l in f:
            if l.strip():
                props.append(json.loads(l))
    checks = []
    na = []
    for p in props:
        pid = p["id"]
        c = CHECKS.get(pid)
        if pid in PENDING:
            c = None
        if not c:
            na.append({"property_id": pid, "reason": "check not built yet (planned in DESIGN.md section 3); nothing is claimed for it"})
            continue
        checks.append(
            {
                "property_id": pid,
                "quick_cmd": f"./check {pid} --tier quick",
                "thorough_cmd": f"./check {pid} --tier thorough",
                "evidence_file": f"/verif/evidence/{pid}.json",
                "replay_cmd_template": f"./check {pid} --replay {{path}}",
                "engine": "mcx",
                "level_claimed": {"category": "model_checking", "text": c["text"], "design_ref": c["design"]},
                "level_note": c["note"],
                "technique": c["technique"],
            }
        )
    m = {
        "version": 1,
        "setup_cmd": "true",
        "hooks": {
            "guard": "CSVPATH_VERIF",
            "enable": "no hooks are compiled in; checks import /repo's working tree directly (editable install in /venv)",
            "baseline_off_cmd": "cd /repo && /venv/bin/python -m pytest -ra -q -p no:cacheprovider --timeout=900 --continue-on-collection-errors",
            "source_commits": [],
            "add_only": True,
        },
        "engines": [dict(ENGINE, serves_properties=[c["property_id"] for c in checks])],
        "checks": checks,
        "not_applicable": na,
        "notes": "All checks are bounded exhaustive explorations on the real code (see DESIGN.md). known_findings.json lists recorded defects and fix: commits.",
    }
    with open(os.path.join(VERIF, "MANIFEST.json"), "w", encoding="utf-8") as f:
        json.dump(m, f, indent=1)
        f.write("\n")


if __name__ == "__main__":
    main()
