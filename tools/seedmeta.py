#!/venv/bin/python
"""write /verif/seeded/<name>/meta.json from the table below + confirm.json (what it breaks, what it needs, what was run)."""
import json
import os

SEEDS = {
    "c01-1": ("C01", "and()/or() with three or more arguments on a line where the first two hold and a later one does not (only the first two vote)", ["C01"]),
    "c04-1": ("C04", "fail_and_stop(cond)/stop(cond) whose condition function returns None because a nested argument errored under a non-raising policy", ["C04"]),
    "c08-1": ("C08", "breadth-first run + file ending in a blank line + a member with last() side effects (the final blank line is no longer evaluated)", ["C08"]),
    "c17-1": ("C17", "an outer comment (before or after the csvpath) containing a '$'", ["C17"]),
    "c18-1": ("C18", "a serial run that aborts followed, on the same CsvPaths instance, by a breadth-first run (stale run directory reused)", ["C18"]),
    "c20-1": ("C20", "a results reference used as the file name together with a source-mode: preceding member (reads the replayed file again)", ["C20"]),
    "c01-2": ("C01", "a variable assigned from an empty/blank cell (or the text None) followed by a bare existence test of that variable", ["C01"]),
    "c02-2": ("C02", "a '+'-list whose first operand is a forward range starting at 0 (0-k+...) with a later operand on a non-blank record", ["C02"]),
    "c03-2": ("C03", "counter.NAME(n) whose increment evaluates to 0 (adds 1 instead of 0)", ["C03"]),
    "c04-2": ("C04", "policy with fail: a component errors on line N, a later component of the same line stops the run, and at least one more component follows (queued errors never handled)", ["C04"]),
    "c05-2": ("C05", "validation-mode no-match with an error in a nested or right-hand component (line returned as a match)", ["C05"]),
    "c06-2": ("C06", "named header on a ragged row with exactly index-many cells (IndexError instead of absent)", ["C06"]),
    "c07-2": ("C07", "unmatched-mode keep + collect(): a stop landing on an unmatched line is ignored, the run reads on", ["C07"]),
    "c08-2": ("C08", "CsvPaths-managed member on a file with a blank line using total_lines()/percent (line monitor copy mixes data and physical totals)", ["C08"]),
    "c09-2": ("C09", "unmatched-mode keep with exactly one unmatched line: unmatched.csv not written", ["C09"]),
    "c10-2": ("C10", ":last/:first with a collision-suffixed run directory at hour >= 12 (suffix format parsed with %I)", ["C10"]),
    "c11-2": ("C11", "add(name), remove(name), add(name) on the SAME CsvPaths instance (in-memory manifest cache goes stale after remove)", ["C11"]),
    "c12-2": ("C12", "three adds on one group name whose content returns to an earlier version (A, B, A): the last change gets no manifest entry", ["C12"]),
    "c13-2": ("C13", "advance(n) firing fewer than n scanned lines before an interior blank line or a gap in the scan window (non-scanned lines use up the count)", ["C13"]),
    "c14-2": ("C14", "asbool combined with increase/decrease/onchange on a step where the write is blocked and y is truthy (asbool overwrites the negative vote)", ["C14"]),
    "c15-2": ("C15", "print-mode no-default with an extra printer registered AFTER the standard-out printer (the last printer is removed instead)", ["C15"]),
    "c16-2": ("C16", "a print string whose last character is a space (the user's own trailing space is stripped)", ["C16"]),
    "c17-2": ("C17", "a function carrying three or more dot-qualifiers (only the first dot is split)", ["C17"]),
    "c18-2": ("C18", "an abort on physical line 0: the error record gets line number -1", ["C18", "C05"]),
    "c19-2": ("C19", "CsvPaths with a non-default delimiter/quotechar and a header cache populated by an earlier instance or process (cache read with the instance dialect)", ["C19"]),
    "c20-2": ("C20", "a header reference to the FIRST header (index 0) of the referenced csvpath raises instead of returning the list", ["C20"]),
    "c01-3": ("C01", "above/below family with exactly one operand an EMPTY cell that is present in the row (treated like None: always False)", ["C01"]),
    "c02-3": ("C02", "a lone degenerate range [k-k] with k>=1 (every record before k is scanned too)", ["C02"]),
    "c03-3": ("C03", "pop() when the value on top of the stack also occurs lower in it (the first equal element is removed instead of the top)", ["C03"]),
    "c04-3": ("C04", "a reused CsvPaths instance: fail_all() executed in an earlier run, later run via a by_line method or next_paths (stale _fail_all)", ["C04"]),
    "c05-3": ("C05", "an error on the first physical line of the file is collected with line number -1", ["C05"]),
    "c06-3": ("C06", "a header name that occurs twice (also after cleaning): '#name' resolves to the last column carrying it", ["C06"]),
    "c07-3": ("C07", "the collect(...) projection function: lines are narrowed only when CsvPath.collect() drives the run", ["C07"]),
    "c08-3": ("C08", "breadth-first run of a member with return-mode: no-matches in its comment (forced back to matches)", ["C08"]),
    "c09-3": ("C09", "a member whose valid and completed differ (stops without failing / fails but runs to the end): manifest completed copies valid", ["C09"]),
    "c10-3": ("C10", "a reused instance whose later run starts in a later second (named after its first run's second), with another instance's run in between", ["C10"]),
    "c11-3": ("C11", "add(n, srcA) then add(n, srcB) with byte-identical content and different source base names", ["C11"]),
    "c12-3": ("C12", ":to / :from used with the identity of the group's FIRST member (index 0 treated as not found)", ["C12"]),
    "c13-3": ("C13", "skip() as the FINAL component firing on a line that an earlier component declined, with a following scanned line", ["C13"]),
    "c14-3": ("C14", "increase and decrease both on the variable (no latch), x set, later y greater than x", ["C14"]),
    "c15-3": ("C15", "an outer comment with a stray colon (no word before it) followed by a word and a later key: value field", ["C15"]),
    "c16-3": ("C16", "print.once with a second argument naming a printer stream, on a file with more than one line", ["C16"]),
    "c17-3": ("C17", "a quoted header whose name contains a dot", ["C17"]),
    "c18-3": ("C18", "breadth-first method + raise policy abort + group of >= 2 members (only member 0 saved)", ["C18"]),
    "c19-3": ("C19", "CsvPaths-managed run on a file with blank records observing the data-line total (total_lines, percent)", ["C19"]),
    "c20-3": ("C20", "referenced group with >= 2 members assigning the same variable name and ending with different values", ["C20"]),
    "c01-4": ("C01", "between/inside/range/beyond with value and both bounds all strings (cells, quoted terms) whose numeric and textual orders differ", ["C01"]),
    "c02-4": ("C02", "a '+'-list of the shape a+b-c (a range whose left endpoint is the second number collected)", ["C02"]),
    "c03-4": ("C03", "a file whose first physical line is blank: count_lines()/total_lines() one too low on every line", ["C03"]),
    "c04-4": ("C04", "policy without 'fail', a fail() that fired, and a handled error on the same or a later line (verdict flips back to True)", ["C04"]),
    "c05-4": ("C05", "validation-mode with fail or no-fail and a stop token that disagrees with it, plus a non-raising error", ["C05"]),
    "c06-4": ("C06", "CsvPath(delimiter=TAB): the reader falls back to ',' (cells, headers and #name/#index all wrong)", ["C06"]),
    "c07-4": ("C07", "fast_forward() on a run that ends without reaching the scan's last line (blank last line, range past the end, empty file, no-run)", ["C07"]),
    "c08-4": ("C08", "breadth-first run, group >= 2, a member that stops early placed before a member that runs longer", ["C08"]),
    "c09-4": ("C09", "a member csvpath printing to two or more printer streams (printouts.txt keeps only the last stream's lines)", ["C09"]),
    "c10-4": ("C10", "reused instance: fast_forward_paths immediately followed by collect_paths (run directory path cached across runs)", ["C10"]),
    "c11-4": ("C11", "add(c1), add(c1), add(c2) under one name from the same source file name (stale landing copy skips the third copy-in)", ["C11"]),
    "c12-4": ("C12", "one instance: add list X, remove the name, add the byte-identical X again (stale fingerprint cache: no manifest entry)", ["C12"]),
    "c13-4": ("C13", "stop() in a non-final position firing on a line that no earlier component declined (the stop line is returned)", ["C13"]),
    "c14-4": ("C14", "onmatch and notnone together with nocontrib or latch, y absent, rest of the line matching", ["C14"]),
    "c15-4": ("C15", "return-mode: no-matches with a match part that depends on the running match count (lt(count(), 3))", ["C15"]),
    "c16-4": ("C16", "a header whose NAME is all digits (not a valid index) referenced by name in a print string", ["C16"]),
    "c17-4": ("C17", "an integer literal with 16 or more digits (not exactly representable as a double)", ["C17"]),
    "c18-4": ("C18", "breadth-first method + raise policy abort on the FINAL line of the aborting member's scan (completed: true)", ["C18"]),
    "c19-4": ("C19", "CsvPaths-managed run with a warm header cache and a header cell with ; , | tab or backtick at its edge next to a space", ["C19"]),
    "c20-4": ("C20", "$group.headers.h.member into a group of >= 2 members one of which collected zero lines", ["C20"]),
    "c01-5": ("C01", "bare all()/missing()/all(headers()) on a ragged row shorter than the header row whose present cells are all non-empty", ["C01"]),
    "c02-5": ("C02", "a file whose first k records are blank, a * or N* scan, and a non-blank record after record last-k", ["C02"]),
    "c03-5": ("C03", "a bool-keyed bookkeeping variable (count.NAME(<equality>)) read back through the .False tracking qualifier", ["C03"]),
    "c04-5": ("C04", "fail_all() executed by a csvpath run through a CsvPaths manager (serial methods; by_line when it fires on the last line)", ["C04"]),
    "c05-5": ("C05", "validation-mode with match and no-fail, no raise, and an argument mismatch in a function standing as the match component", ["C05"]),
    "c06-5": ("C06", "CsvPath(quotechar=\"'\") and a first record containing a cell csv.writer had to quote (header pass uses the default quote)", ["C06"]),
    "c07-5": ("C07", "collect(nexts=n) with 1 <= n <= matches, looking at the state left behind (later-line side effects leak)", ["C07"]),
    "c08-5": ("C08", "breadth-first collecting run with if_all_agree=True, group >= 2, a line an earlier member rejects and a later member matches", ["C08"]),
    "c09-5": ("C09", "group of >= 2 members whose variables differ (vars.json written from the merged group variables)", ["C09"]),
    "c10-5": ("C10", "one long-lived instance resolving the same :last/:first reference before and after a newer run of the group", ["C10"]),
    "c11-5": ("C11", "add(name, src), an IN-PLACE edit of src, then reading the stored bytes of the current or an older version", ["C11"]),
    "c12-5": ("C12", "a group member whose id: or name: value starts with a digit, selected by that identity", ["C12"]),
    "c13-5": ("C13", "advance(n) firing so close to the end that it reaches the file's last line; file without a trailing blank", ["C13"]),
    "c14-5": ("C14", "latch and asbool (no nocontrib, no onchange), x latched, a later falsy y with the rest of the line matching", ["C14"]),
    "c15-5": ("C15", "an outer comment whose whole stripped text is at most 3 characters and carries a field (q:7)", ["C15"]),
    "c16-5": ("C16", "print-mode: no-default on a CsvPath that has no standard-out printer and at least one custom printer", ["C16", "C15"]),
    "c17-5": ("C17", "a string (or regex) term that contains a line break", ["C17"]),
    "c18-5": ("C18", "an abort under a policy that contains quiet together with raise and collect", ["C18", "C05"]),
    "c19-5": ("C19", "a job whose first component warns during the validity check (regex with a FutureWarning) run first vs after another job", ["C19"]),
    "c20-5": ("C20", "a variable reference with a tracking key whose final value is falsy (0, False, empty)", ["C20"]),
    "c01-6": ("C01", "length() applied to a value that is None (header missing from a short row, unset variable) compared with 0 or 4", ["C01"]),
    "c02-6": ("C02", "breadth-first run of >= 2 members whose last member has a bounded scan ending before an earlier member's", ["C08"]),
    "c03-6": ("C03", "return-mode: no-matches and no onmatch-style component on the matching line: match_count stays 0, count() reports 1", ["C03", "C15"]),
    "c04-6": ("C04", "group of >= 2 members whose first member stays valid while a later one fails: run manifest all_valid", ["C04"]),
    "c05-6": ("C05", "an error in a component that is followed on the same line by a stop() that fires and by at least one more component", ["C05"]),
    "c06-6": ("C06", "a first non-blank record consisting only of empty or whitespace-only cells (headers taken from a later record)", ["C06"]),
    "c07-6": ("C07", "a returned record that is a single empty or whitespace-only cell, run driven by collect()", ["C07"]),
    "c08-6": ("C08", "breadth-first run with if_all_agree=True and a line rejected by some member followed by a line all accept", ["C08"]),
    "c09-6": ("C09", "a group in which at least two members collect errors: run manifest error_count", ["C09"]),
    "c10-6": ("C10", "two runs of a group in the same hour, different minutes, the later one with a smaller seconds field", ["C10"]),
    "c02-1": ("C02", "lone reversed range whose low bound is 0 ([3-0]) with record 0 non-blank and a later non-blank record in range", ["C02"]),
    "c03-1": ("C03", "first() on a value first seen on line 0 that re-appears later; scan must include line 0", ["C03"]),
    "c05-1": ("C05", "validation-mode whose FIRST token is no-stop, a non-raising error, and at least one more line after it", ["C05"]),
    "c06-1": ("C06", "a cell containing a backslash (dropped), a cell ending in a backslash (merges with the next cell/record)", ["C06"]),
    "c07-1": ("C07", "collect(nexts=n) after a line on which an onmatch component raised the match count and a later skip() vetoed it, or with return-mode no-matches", ["C07"]),
    "c09-1": ("C09", "group of >=2 members whose first member is valid and a later one invalid: run manifest all_valid stays true", ["C09"]),
    "c10-1": ("C10", "four or more runs of the same group within one second (collision suffix probed only once)", ["C10"]),
    "c11-1": ("C11", "add(v1), add(v2), add(v1) under one name from the same source file name", ["C11"]),
    "c12-1": ("C12", "group mixing identity keys with the higher-priority key earlier (id: first, name: second), selecting the later member", ["C12"]),
    "c13-1": ("C13", "last() with a bounded/list scan window whose largest line lies beyond the end of the file", ["C13"]),
    "c14-1": ("C14", "latch and onchange on the same variable, x already set, a later differing y", ["C14"]),
    "c15-1": ("C15", "unmatched-mode keep + collect() + a blank line inside the range of lines read", ["C15"]),
    "c19-1": ("C19", "two CsvPaths jobs on ONE CsvPaths instance, the first using append() with a new header name on the same named file", ["C19"]),
    "c16-1": ("C16", "three-part variables reference (.key/.index/.length) whose selected value is falsy (empty string, 0, False)", ["C16"]),
}


def main():
    base = os.path.join(os.path.dirname(os.path.dirname(os.path.abspath(__file__))), "seeded")
    for name, (pid, needs, caught) in SEEDS.items():
        d = os.path.join(base, name)
        if not os.path.isdir(d):
            continue
        conf = {}
        cp = os.path.join(d, "confirm.json")
        if os.path.isfile(cp):
            with open(cp, encoding="utf-8") as f:
                conf = json.load(f)
        meta = {
            "seed": name,
            "breaks_property": pid,
            "needs_to_manifest": needs,
            "origin": "independent sub-agent given only the property text and its own scratch worktree",
            "confirmed_here": {
                "command": f"tools/seedconfirm.sh <worktree> {name}",
                "demo_exit_with_change": conf.get("demo_exit_with_change"),
                "demo_exit_without_change": conf.get("demo_exit_without_change"),
                "pinned_suite": f"{conf.get('pinned_suite_passed')}/{conf.get('pinned_suite_total')} of the BASELINE stable tests pass with the change",
                "base_commit": conf.get("base_commit"),
            },
            "detected_by": [{"check": c, "tier": "quick", "command": f"tools/seedtest.sh {name} {c}"} for c in caught],
        }
        with open(os.path.join(d, "meta.json"), "w", encoding="utf-8") as f:
            json.dump(meta, f, indent=1)
            f.write("\n")
        print(name, "ok" if conf else "no confirm.json yet")


if __name__ == "__main__":
    main()
