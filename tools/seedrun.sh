#!/bin/sh
# tools/seedrun.sh <worktree-or-repo-copy> <check id> [tier]  -- run a check against a scratch copy of the tree (mutation demos)
WT="$1"; ID="$2"; TIER="${3:-quick}"
export VERIF_REPO="$WT" VERIF_EVIDENCE_DIR="/tmp/verif-mut-evidence"
mkdir -p "$VERIF_EVIDENCE_DIR"
cd /verif && ./check "$ID" --tier "$TIER"
echo "exit=$?"
