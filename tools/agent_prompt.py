#!/venv/bin/python
"""print the prompt given to an independent sub-agent asked to seed a property-breaking change."""
import json, sys
pid = sys.argv[1]; wt = sys.argv[2]
avoid = sys.argv[3] if len(sys.argv) > 3 else ""
for l in open('/verif/properties.jsonl'):
    p = json.loads(l)
    if p['id'] == pid:
        break
print(f"""You are helping to test a verification setup for the Python library csvpath (a declarative DSL for validating CSV files). You have your own scratch git worktree of the library at {wt} (detached HEAD). Work ONLY inside {wt}. Do not read or write anything under /verif or /repo (those are off limits; in particular do not look at /verif at all), and do not commit anything.

Here is a semantic property of the library that should always hold:

TITLE: {p['title']}
STATEMENT: {p['statement']}
SCOPE: {p['quantifier']['text']}
Relevant source files (relative to the worktree): {', '.join(p['anchors']['files'])}

YOUR TASK: make ONE realistic, small change to the library source under {wt}/csvpath (the kind of slip a maintainer could plausibly make: an off-by-one, a wrong comparison, a stale cached value, an early return, effects in the wrong order, a missing reset, a condition that only matters for an unusual input) that BREAKS this property, while the library still imports and the existing test suite still passes. Prefer a change that needs something specific to manifest - an unusual input, a multi-step sequence of operations, a particular position in the file, a particular combination of settings, or two cooperating sites that each look fine alone - rather than one that ordinary use would expose at once. Do not change tests. Do not make the change depend on environment variables, randomness or time.
{("ALREADY TAKEN - someone else has already seeded the following change for this property, so pick a DIFFERENT mechanism in a different function or file (a different part of the statement, a different operation, a different kind of input): " + avoid) if avoid else ""}

How to run things (no network is available):
- Python is /venv/bin/python. Run from the worktree root so that `import csvpath` resolves to the worktree copy: `cd {wt} && /venv/bin/python -c "import csvpath; print(csvpath.__file__)"` must print a path under {wt}.
- The test suite: `cd {wt} && /venv/bin/python -m pytest -q -p no:cacheprovider -x --timeout=900 <paths>`; the full suite takes about 11 minutes (`tests/`). 69 tests fail even on the unchanged tree because they need a network service (OpenLineage listeners configured in config/config.ini) - those do not count. Everything that passes on the unchanged tree must still pass with your change: run the test files that touch the code you changed first, and then the full suite once (compare the set of failing tests against this list of expected failures - do NOT use `git stash`: the stash is shared between all worktrees of this repository and other people are working in sibling worktrees; to toggle your change use `git diff -- csvpath > /tmp/<your-id>.diff`, `git apply -R /tmp/<your-id>.diff` and `git apply /tmp/<your-id>.diff`: every failure must be in tests/examples/, tests/managers/test_data_readers.py, tests/managers/test_files_manager.py, tests/managers/test_paths_manager.py, tests/managers/test_results_manager.py, tests/productions/test_references.py, tests/test_cache.py::test_cache_files, tests/test_comments.py::test_comment_settings_affecting_multiple_paths, tests/test_csvpaths.py, tests/test_csvpaths_coordinator_functions.py, tests/test_single_from_group.py, tests/test_xlsx.py, tests/functions/test_error.py, test_import2/3, test_new_in5/7, test_jinja_get_tokens, test_metaphone2, test_function_now, three tests in tests/functions/test_print.py).
- If you need CsvPaths (the multi-path manager) in your demonstration, run your demo from a scratch directory containing a `config/config.ini` copied from {wt}/config/config.ini with the whole `[listeners]` section removed and `[config] path =` left empty, and put {wt} first on sys.path; that makes CsvPaths work offline.

DELIVERABLES, all inside {wt}/seeded/ (create the directory):
1. patch.diff - output of `git -C {wt} diff -- csvpath` (the source change only).
2. demo.py - a small stand-alone program (it may create temporary files/directories under a tempfile directory and must clean up) that exits 0 and prints PASS on the UNCHANGED library and exits 1 and prints FAIL with your change applied. It must put {wt} first on sys.path (sys.path.insert(0, '{wt}')).
3. notes.md - 5-10 lines: what you changed, why it breaks the property, what specifically is needed for it to manifest, and which test commands you ran with their pass/fail counts.
Verify both directions yourself (with the change: demo FAILS; with the change reversed by `git apply -R`: demo PASSES; then re-apply it so the change is left applied in the worktree). Never use `git stash`. Report back briefly: the change, what it needs to manifest, and the test results.""")
