#!/bin/sh
# tools/allquick.sh [seed] : run every registered quick check once, print the summary line and exit status of each
SEED="${1:-0}"
cd /verif
for ID in $(/venv/bin/python -c "import json; print(' '.join(c['property_id'] for c in json.load(open('MANIFEST.json'))['checks']))"); do
  VERIF_SEED=$SEED ./check $ID --tier quick > /tmp/allquick_${SEED}_$ID.log 2>&1
  RC=$?
  echo "seed=$SEED $ID exit=$RC $(grep -c '^VIOLATION' /tmp/allquick_${SEED}_$ID.log) violations :: $(tail -1 /tmp/allquick_${SEED}_$ID.log | cut -c1-200)"
done
