#!/bin/sh
# tools/seedtest.sh <seeded-name> <check id> [<check id> ...]
# apply /verif/seeded/<name>/patch.diff to a scratch worktree of /repo HEAD, run the given quick checks against it
# (VERIF_REPO), print which of them raise a VIOLATION, remove the worktree.
NAME="$1"; shift
WT=$(mktemp -d /tmp/seedtest-XXXXXX)
rmdir "$WT"
git -C /repo worktree add --detach -q "$WT" HEAD || exit 2
if ! git -C "$WT" apply /verif/seeded/$NAME/patch.diff; then echo "PATCH DOES NOT APPLY"; git -C /repo worktree remove --force "$WT"; exit 2; fi
export VERIF_REPO="$WT" VERIF_EVIDENCE_DIR="/tmp/verif-mut-evidence"
mkdir -p "$VERIF_EVIDENCE_DIR"
for ID in "$@"; do
  cd /verif && ./check "$ID" --tier "${TIER:-quick}" > /tmp/seedtest_${NAME}_$ID.log 2>&1
  RC=$?
  echo "seed=$NAME check=$ID exit=$RC violations=$(grep -c '^VIOLATION' /tmp/seedtest_${NAME}_$ID.log)"
  grep -A2 '^VIOLATION' /tmp/seedtest_${NAME}_$ID.log | head -6
done
git -C /repo worktree remove --force "$WT"
