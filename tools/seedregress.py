#!/venv/bin/python
"""tools/seedregress.py [-j N] [name ...]
Re-run every recorded seeded change (seeded/<name>/patch.diff) against the check(s) that tools/seedmeta.py says detect it, each on
its own scratch worktree of /repo HEAD (tools/seedtest.sh), and write the detection matrix to seeded/REGRESSION.md.
A seed is 'detected' when its check exits 1 with at least one VIOLATION line; the same checks are silent on the unchanged tree
(tools/allquick.sh). Nothing here is registered in MANIFEST.json: it is the regression test of the machinery itself."""
import concurrent.futures as cf
import os
import re
import subprocess
import sys
import time

HERE = os.path.dirname(os.path.abspath(__file__))
VERIF = os.path.dirname(HERE)


def seeds():
    src = open(os.path.join(HERE, "seedmeta.py")).read()
    m = re.search(r"SEEDS\s*=\s*\{.*?\n\}", src, re.S)
    ns = {}
    exec(m.group(0), ns)
    return ns["SEEDS"]


def one(name, checks):
    t0 = time.time()
    p = subprocess.run([os.path.join(HERE, "seedtest.sh"), name] + list(checks), capture_output=True, text=True)
    res = {}
    for mm in re.finditer(r"seed=(\S+) check=(\S+) exit=(\d+) violations=(\d+)", p.stdout):
        res[mm.group(2)] = (int(mm.group(3)), int(mm.group(4)))
    return name, res, time.time() - t0, p.stdout[-300:] if not res else ""


def main():
    args = sys.argv[1:]
    j = 2
    if args[:1] == ["-j"]:
        j = int(args[1])
        args = args[2:]
    S = seeds()
    names = args or sorted(S, key=lambda n: (n[-1], n))
    rows = []
    with cf.ThreadPoolExecutor(j) as ex:
        futs = [ex.submit(one, n, S[n][2]) for n in names]
        for f in cf.as_completed(futs):
            name, res, dt, err = f.result()
            ok = bool(res) and any(rc == 1 and nv > 0 for rc, nv in res.values())
            print(f"{name}: {'DETECTED' if ok else 'MISSED'} {res} {dt:.0f}s {err}", flush=True)
            rows.append((name, ok, res))
    rows.sort(key=lambda r: (r[0][-1], r[0]))
    head = subprocess.run(["git", "-C", "/repo", "rev-parse", "--short", "HEAD"], capture_output=True, text=True).stdout.strip()
    if not args:
        with open(os.path.join(VERIF, "seeded", "REGRESSION.md"), "w") as f:
            f.write(f"# Seeded-change regression (quick tier), /repo at {head}\n\n")
            f.write("Written by tools/seedregress.py. Each patch is applied to a scratch worktree of /repo HEAD and the listed quick check is run against it.\n\n")
            f.write("| seed | property | check: exit / VIOLATION lines | detected |\n|---|---|---|---|\n")
            for name, ok, res in rows:
                f.write(f"| {name} | {S[name][0]} | {', '.join(f'{c}: {rc} / {nv}' for c, (rc, nv) in res.items())} | {'yes' if ok else '**NO**'} |\n")
            f.write(f"\n{sum(1 for r in rows if r[1])} of {len(rows)} detected.\n")
    sys.exit(0 if all(r[1] for r in rows) else 1)


if __name__ == "__main__":
    main()
